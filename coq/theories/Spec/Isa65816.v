(** Independent specification of the 65c816 instruction encodings (C01).

    Written from the WDC W65C816S data sheet via DESIGN.md Appendix D — NOT from the
    repository's opcode table.  It contains
      - [isa_rows] / [isa]: the complete 256-opcode matrix: byte -> (mnemonic, addressing
        mode, operand length class);
      - the a816 spellings of the instructions whose WDC mnemonic differs ([alias]):
        [jsr.l] = JSL, [jmp.l] = JML, [jmp [abs]] = JML [abs]; accumulator addressing is
        spelled as the bare mnemonic ([asl] = ASL A);
      - the reading of operand syntax + operand width as an ISA addressing mode
        ([shape_isa] on syntactic shapes, [shape_mode] on the parser's (mode, index) pair);
      - [isa_encoding]: the opcode byte the ISA assigns to (mnemonic, mode, width), found by
        searching the matrix, and [isa_expected]: the complete encoding of an instruction. *)
From Coq Require Import String Ascii.
From A816 Require Export Base.Prelude Model.Ast.
Open Scope Z_scope.

(** Mnemonics are upper-case ASCII strings, as code points. *)
Definition mn (s : string) : str := map (fun c => Z.of_N (N_of_ascii c)) (list_ascii_of_string s).
Arguments mn s%string.

Inductive isa_mode :=
| Imp | Acc                       (* implied / stack; accumulator *)
| Imm                             (* immediate; its length is in the operand-length class *)
| Dp | Abs | Long                 (* d ; a ; al *)
| DpX | DpY | AbsX | AbsY | LongX (* d,x ; d,y ; a,x ; a,y ; al,x *)
| SrS                             (* d,s *)
| DpInd | DpIndY                  (* (d) ; (d),y *)
| DpIndLong | DpIndLongY          (* [d] ; [d],y *)
| DpXInd | SrSIndY                (* (d,x) ; (d,s),y *)
| AbsInd | AbsXInd | AbsIndLong   (* (a) ; (a,x) ; [a] *)
| Rel8 | Rel16 | Blk.             (* r ; rl ; xyc *)

(** Operand length class: fixed 0..3 bytes, or 1/2 bytes following the M resp. X flag. *)
Inductive oplen := L0 | L1 | L2 | L3 | LM | LX.

Definition isa_mode_code (m : isa_mode) : Z :=
  match m with
  | Imp => 0 | Acc => 1 | Imm => 2 | Dp => 3 | Abs => 4 | Long => 5 | DpX => 6 | DpY => 7
  | AbsX => 8 | AbsY => 9 | LongX => 10 | SrS => 11 | DpInd => 12 | DpIndY => 13
  | DpIndLong => 14 | DpIndLongY => 15 | DpXInd => 16 | SrSIndY => 17 | AbsInd => 18
  | AbsXInd => 19 | AbsIndLong => 20 | Rel8 => 21 | Rel16 => 22 | Blk => 23
  end.
Definition isa_mode_eqb (a b : isa_mode) : bool := isa_mode_code a =? isa_mode_code b.

Record isa_row := R { r_byte : Z; r_name : string; r_mode : isa_mode; r_len : oplen }.

(** The matrix, one line per high nibble (DESIGN.md Appendix D). *)
Definition isa_rows : list isa_row := [
  R 0x00 "BRK" Imp L0; R 0x01 "ORA" DpXInd L1; R 0x02 "COP" Imm L1; R 0x03 "ORA" SrS L1; R 0x04 "TSB" Dp L1; R 0x05 "ORA" Dp L1; R 0x06 "ASL" Dp L1; R 0x07 "ORA" DpIndLong L1; R 0x08 "PHP" Imp L0; R 0x09 "ORA" Imm LM; R 0x0A "ASL" Acc L0; R 0x0B "PHD" Imp L0; R 0x0C "TSB" Abs L2; R 0x0D "ORA" Abs L2; R 0x0E "ASL" Abs L2; R 0x0F "ORA" Long L3;
  R 0x10 "BPL" Rel8 L1; R 0x11 "ORA" DpIndY L1; R 0x12 "ORA" DpInd L1; R 0x13 "ORA" SrSIndY L1; R 0x14 "TRB" Dp L1; R 0x15 "ORA" DpX L1; R 0x16 "ASL" DpX L1; R 0x17 "ORA" DpIndLongY L1; R 0x18 "CLC" Imp L0; R 0x19 "ORA" AbsY L2; R 0x1A "INC" Acc L0; R 0x1B "TCS" Imp L0; R 0x1C "TRB" Abs L2; R 0x1D "ORA" AbsX L2; R 0x1E "ASL" AbsX L2; R 0x1F "ORA" LongX L3;
  R 0x20 "JSR" Abs L2; R 0x21 "AND" DpXInd L1; R 0x22 "JSL" Long L3; R 0x23 "AND" SrS L1; R 0x24 "BIT" Dp L1; R 0x25 "AND" Dp L1; R 0x26 "ROL" Dp L1; R 0x27 "AND" DpIndLong L1; R 0x28 "PLP" Imp L0; R 0x29 "AND" Imm LM; R 0x2A "ROL" Acc L0; R 0x2B "PLD" Imp L0; R 0x2C "BIT" Abs L2; R 0x2D "AND" Abs L2; R 0x2E "ROL" Abs L2; R 0x2F "AND" Long L3;
  R 0x30 "BMI" Rel8 L1; R 0x31 "AND" DpIndY L1; R 0x32 "AND" DpInd L1; R 0x33 "AND" SrSIndY L1; R 0x34 "BIT" DpX L1; R 0x35 "AND" DpX L1; R 0x36 "ROL" DpX L1; R 0x37 "AND" DpIndLongY L1; R 0x38 "SEC" Imp L0; R 0x39 "AND" AbsY L2; R 0x3A "DEC" Acc L0; R 0x3B "TSC" Imp L0; R 0x3C "BIT" AbsX L2; R 0x3D "AND" AbsX L2; R 0x3E "ROL" AbsX L2; R 0x3F "AND" LongX L3;
  R 0x40 "RTI" Imp L0; R 0x41 "EOR" DpXInd L1; R 0x42 "WDM" Imm L1; R 0x43 "EOR" SrS L1; R 0x44 "MVP" Blk L2; R 0x45 "EOR" Dp L1; R 0x46 "LSR" Dp L1; R 0x47 "EOR" DpIndLong L1; R 0x48 "PHA" Imp L0; R 0x49 "EOR" Imm LM; R 0x4A "LSR" Acc L0; R 0x4B "PHK" Imp L0; R 0x4C "JMP" Abs L2; R 0x4D "EOR" Abs L2; R 0x4E "LSR" Abs L2; R 0x4F "EOR" Long L3;
  R 0x50 "BVC" Rel8 L1; R 0x51 "EOR" DpIndY L1; R 0x52 "EOR" DpInd L1; R 0x53 "EOR" SrSIndY L1; R 0x54 "MVN" Blk L2; R 0x55 "EOR" DpX L1; R 0x56 "LSR" DpX L1; R 0x57 "EOR" DpIndLongY L1; R 0x58 "CLI" Imp L0; R 0x59 "EOR" AbsY L2; R 0x5A "PHY" Imp L0; R 0x5B "TCD" Imp L0; R 0x5C "JML" Long L3; R 0x5D "EOR" AbsX L2; R 0x5E "LSR" AbsX L2; R 0x5F "EOR" LongX L3;
  R 0x60 "RTS" Imp L0; R 0x61 "ADC" DpXInd L1; R 0x62 "PER" Rel16 L2; R 0x63 "ADC" SrS L1; R 0x64 "STZ" Dp L1; R 0x65 "ADC" Dp L1; R 0x66 "ROR" Dp L1; R 0x67 "ADC" DpIndLong L1; R 0x68 "PLA" Imp L0; R 0x69 "ADC" Imm LM; R 0x6A "ROR" Acc L0; R 0x6B "RTL" Imp L0; R 0x6C "JMP" AbsInd L2; R 0x6D "ADC" Abs L2; R 0x6E "ROR" Abs L2; R 0x6F "ADC" Long L3;
  R 0x70 "BVS" Rel8 L1; R 0x71 "ADC" DpIndY L1; R 0x72 "ADC" DpInd L1; R 0x73 "ADC" SrSIndY L1; R 0x74 "STZ" DpX L1; R 0x75 "ADC" DpX L1; R 0x76 "ROR" DpX L1; R 0x77 "ADC" DpIndLongY L1; R 0x78 "SEI" Imp L0; R 0x79 "ADC" AbsY L2; R 0x7A "PLY" Imp L0; R 0x7B "TDC" Imp L0; R 0x7C "JMP" AbsXInd L2; R 0x7D "ADC" AbsX L2; R 0x7E "ROR" AbsX L2; R 0x7F "ADC" LongX L3;
  R 0x80 "BRA" Rel8 L1; R 0x81 "STA" DpXInd L1; R 0x82 "BRL" Rel16 L2; R 0x83 "STA" SrS L1; R 0x84 "STY" Dp L1; R 0x85 "STA" Dp L1; R 0x86 "STX" Dp L1; R 0x87 "STA" DpIndLong L1; R 0x88 "DEY" Imp L0; R 0x89 "BIT" Imm LM; R 0x8A "TXA" Imp L0; R 0x8B "PHB" Imp L0; R 0x8C "STY" Abs L2; R 0x8D "STA" Abs L2; R 0x8E "STX" Abs L2; R 0x8F "STA" Long L3;
  R 0x90 "BCC" Rel8 L1; R 0x91 "STA" DpIndY L1; R 0x92 "STA" DpInd L1; R 0x93 "STA" SrSIndY L1; R 0x94 "STY" DpX L1; R 0x95 "STA" DpX L1; R 0x96 "STX" DpY L1; R 0x97 "STA" DpIndLongY L1; R 0x98 "TYA" Imp L0; R 0x99 "STA" AbsY L2; R 0x9A "TXS" Imp L0; R 0x9B "TXY" Imp L0; R 0x9C "STZ" Abs L2; R 0x9D "STA" AbsX L2; R 0x9E "STZ" AbsX L2; R 0x9F "STA" LongX L3;
  R 0xA0 "LDY" Imm LX; R 0xA1 "LDA" DpXInd L1; R 0xA2 "LDX" Imm LX; R 0xA3 "LDA" SrS L1; R 0xA4 "LDY" Dp L1; R 0xA5 "LDA" Dp L1; R 0xA6 "LDX" Dp L1; R 0xA7 "LDA" DpIndLong L1; R 0xA8 "TAY" Imp L0; R 0xA9 "LDA" Imm LM; R 0xAA "TAX" Imp L0; R 0xAB "PLB" Imp L0; R 0xAC "LDY" Abs L2; R 0xAD "LDA" Abs L2; R 0xAE "LDX" Abs L2; R 0xAF "LDA" Long L3;
  R 0xB0 "BCS" Rel8 L1; R 0xB1 "LDA" DpIndY L1; R 0xB2 "LDA" DpInd L1; R 0xB3 "LDA" SrSIndY L1; R 0xB4 "LDY" DpX L1; R 0xB5 "LDA" DpX L1; R 0xB6 "LDX" DpY L1; R 0xB7 "LDA" DpIndLongY L1; R 0xB8 "CLV" Imp L0; R 0xB9 "LDA" AbsY L2; R 0xBA "TSX" Imp L0; R 0xBB "TYX" Imp L0; R 0xBC "LDY" AbsX L2; R 0xBD "LDA" AbsX L2; R 0xBE "LDX" AbsY L2; R 0xBF "LDA" LongX L3;
  R 0xC0 "CPY" Imm LX; R 0xC1 "CMP" DpXInd L1; R 0xC2 "REP" Imm L1; R 0xC3 "CMP" SrS L1; R 0xC4 "CPY" Dp L1; R 0xC5 "CMP" Dp L1; R 0xC6 "DEC" Dp L1; R 0xC7 "CMP" DpIndLong L1; R 0xC8 "INY" Imp L0; R 0xC9 "CMP" Imm LM; R 0xCA "DEX" Imp L0; R 0xCB "WAI" Imp L0; R 0xCC "CPY" Abs L2; R 0xCD "CMP" Abs L2; R 0xCE "DEC" Abs L2; R 0xCF "CMP" Long L3;
  R 0xD0 "BNE" Rel8 L1; R 0xD1 "CMP" DpIndY L1; R 0xD2 "CMP" DpInd L1; R 0xD3 "CMP" SrSIndY L1; R 0xD4 "PEI" DpInd L1; R 0xD5 "CMP" DpX L1; R 0xD6 "DEC" DpX L1; R 0xD7 "CMP" DpIndLongY L1; R 0xD8 "CLD" Imp L0; R 0xD9 "CMP" AbsY L2; R 0xDA "PHX" Imp L0; R 0xDB "STP" Imp L0; R 0xDC "JML" AbsIndLong L2; R 0xDD "CMP" AbsX L2; R 0xDE "DEC" AbsX L2; R 0xDF "CMP" LongX L3;
  R 0xE0 "CPX" Imm LX; R 0xE1 "SBC" DpXInd L1; R 0xE2 "SEP" Imm L1; R 0xE3 "SBC" SrS L1; R 0xE4 "CPX" Dp L1; R 0xE5 "SBC" Dp L1; R 0xE6 "INC" Dp L1; R 0xE7 "SBC" DpIndLong L1; R 0xE8 "INX" Imp L0; R 0xE9 "SBC" Imm LM; R 0xEA "NOP" Imp L0; R 0xEB "XBA" Imp L0; R 0xEC "CPX" Abs L2; R 0xED "SBC" Abs L2; R 0xEE "INC" Abs L2; R 0xEF "SBC" Long L3;
  R 0xF0 "BEQ" Rel8 L1; R 0xF1 "SBC" DpIndY L1; R 0xF2 "SBC" DpInd L1; R 0xF3 "SBC" SrSIndY L1; R 0xF4 "PEA" Abs L2; R 0xF5 "SBC" DpX L1; R 0xF6 "INC" DpX L1; R 0xF7 "SBC" DpIndLongY L1; R 0xF8 "SED" Imp L0; R 0xF9 "SBC" AbsY L2; R 0xFA "PLX" Imp L0; R 0xFB "XCE" Imp L0; R 0xFC "JSR" AbsXInd L2; R 0xFD "SBC" AbsX L2; R 0xFE "INC" AbsX L2; R 0xFF "SBC" LongX L3].

Definition isa (b : Z) : option (str * isa_mode * oplen) :=
  match find (fun r => r_byte r =? b) isa_rows with
  | Some r => Some (mn (r_name r), r_mode r, r_len r)
  | None => None
  end.

(** ---------------------------------------------------------------- a816 spellings *)

Definition JSR := mn "JSR". Definition JSL := mn "JSL".
Definition JMP := mn "JMP". Definition JML := mn "JML".

(** The WDC mnemonic of the instruction a816 writes as [m] in ISA mode [md]. *)
Definition alias (m : str) (md : isa_mode) : str :=
  if str_eqb m JSR && isa_mode_eqb md Long then JSL
  else if str_eqb m JMP && (isa_mode_eqb md Long || isa_mode_eqb md AbsIndLong) then JML
  else m.

(** a816 writes accumulator addressing as the bare mnemonic, like implied addressing. *)
Definition mode_spelled (want have : isa_mode) : bool :=
  isa_mode_eqb want have || (isa_mode_eqb want Imp && isa_mode_eqb have Acc).

Definition to_upper_c (c : Z) : Z := if (97 <=? c) && (c <=? 122) then c - 32 else c.
Definition to_lower_c (c : Z) : Z := if (65 <=? c) && (c <=? 90) then c + 32 else c.
Definition str_upper (s : str) : str := map to_upper_c s.
Definition str_lower (s : str) : str := map to_lower_c s.

(** ---------------------------------------------------------------- operand syntax *)

(** The operand shapes of the statement grammar; [ShBad] are the index combinations that
    denote no 65c816 addressing mode: (v,x),y (v,y) (v,s) (v),x [v],x #v,x *)
Inductive opshape :=
| ShImplied | ShImm | ShDir | ShDirX | ShDirY | ShDirS | ShInd | ShIndY | ShLng | ShLngY
| ShXInd | ShSIndY | ShBad.

Definition width_bytes (w : vsize) : Z := match w with SzB => 1 | SzW => 2 | SzL => 3 end.

(** Operand syntax + operand width = ISA addressing mode. *)
Definition shape_isa (sh : opshape) (w : vsize) : option isa_mode :=
  match sh, w with
  | ShImm, SzB | ShImm, SzW => Some Imm
  | ShDir, SzB => Some Dp | ShDir, SzW => Some Abs | ShDir, SzL => Some Long
  | ShDirX, SzB => Some DpX | ShDirX, SzW => Some AbsX | ShDirX, SzL => Some LongX
  | ShDirY, SzB => Some DpY | ShDirY, SzW => Some AbsY
  | ShDirS, SzB => Some SrS
  | ShInd, SzB => Some DpInd | ShInd, SzW => Some AbsInd
  | ShIndY, SzB => Some DpIndY
  | ShLng, SzB => Some DpIndLong | ShLng, SzW => Some AbsIndLong
  | ShLngY, SzB => Some DpIndLongY
  | ShXInd, SzB => Some DpXInd | ShXInd, SzW => Some AbsXInd
  | ShSIndY, SzB => Some SrSIndY
  | _, _ => None
  end.

(** Does an operand of [w] bytes have the length the matrix gives the instruction? *)
Definition len_ok (l : oplen) (w : vsize) : bool :=
  match l, w with
  | L1, SzB | L2, SzW | L3, SzL | LM, SzB | LM, SzW | LX, SzB | LX, SzW => true
  | _, _ => false
  end.

(** The parser's (AddressingMode, index) pair read back as a syntactic shape.  For
    [stack_indexed_indirect_indexed] the AST keeps the outer index ("y"); the inner one is
    required to be "s" by the parser. *)
Definition ix := [120]. Definition iy := [121]. Definition is_ := [115].
Definition amode_shape (m : amode) (idx : option str) : option opshape :=
  match m, idx with
  | M_none, None => Some ShImplied
  | M_immediate, None => Some ShImm
  | M_direct, None => Some ShDir
  | M_direct_indexed, Some i =>
      if str_eqb i ix then Some ShDirX else if str_eqb i iy then Some ShDirY
      else if str_eqb i is_ then Some ShDirS else None
  | M_indirect, None => Some ShInd
  | M_indirect_indexed, Some i => if str_eqb i iy then Some ShIndY else None
  | M_indirect_long, None => Some ShLng
  | M_indirect_indexed_long, Some i => if str_eqb i iy then Some ShLngY else None
  | M_dp_or_sr_indirect_indexed, Some i => if str_eqb i ix then Some ShXInd else None
  | M_stack_indexed_indirect_indexed, Some i => if str_eqb i iy then Some ShSIndY else None
  | _, _ => None
  end.

Definition shape_mode (m : amode) (idx : option str) (w : vsize) : option isa_mode :=
  match amode_shape m idx with
  | Some sh => shape_isa sh w
  | None => None
  end.

(** ---------------------------------------------------------------- encodings *)

Definition all_bytes : list Z := map Z.of_nat (seq 0 256).

(** The opcode of a816-mnemonic [m] (upper case) with an operand in ISA mode [md] of width [w]. *)
Definition row_matches (m : str) (md : isa_mode) (w : vsize) (b : Z) : bool :=
  match isa b with
  | Some (n, md', l) => str_eqb n (alias m md) && isa_mode_eqb md md' && len_ok l w
  | None => false
  end.
Definition isa_encoding (m : str) (md : isa_mode) (w : vsize) : option Z :=
  find (row_matches m md w) all_bytes.

(** The opcode of the operand-less instruction [m] (implied or accumulator addressing). *)
Definition row_matches_implied (m : str) (b : Z) : bool :=
  match isa b with
  | Some (n, md', L0) => str_eqb n m && mode_spelled Imp md'
  | _ => false
  end.
Definition isa_implied (m : str) : option Z := find (row_matches_implied m) all_bytes.

(** The opcode of the 8-bit relative branch [m]. *)
Definition row_matches_rel8 (m : str) (b : Z) : bool :=
  match isa b with
  | Some (n, Rel8, L1) => str_eqb n m
  | _ => false
  end.
Definition isa_rel8 (m : str) : option Z := find (row_matches_rel8 m) all_bytes.

(** The smallest of 1, 2, 3 bytes that holds a non-negative value (none beyond 24 bits). *)
Definition natural_width (v : Z) : option vsize :=
  if v <? 0 then None
  else if v <=? 255 then Some SzB else if v <=? 65535 then Some SzW
  else if v <=? 16777215 then Some SzL else None.

(** The complete encoding of [m operand] with an operand of shape [sh], width [w], value [v]:
    opcode, then the value truncated to the width, least significant byte first. *)
Definition isa_expected (m : str) (sh : opshape) (w : vsize) (v : Z) : option bytes :=
  match shape_isa sh w with
  | None => None
  | Some md =>
      match isa_encoding m md w with
      | None => None
      | Some b => Some (b :: le_bytes (Z.to_nat (width_bytes w)) (v mod 256 ^ width_bytes w))
      end
  end.
