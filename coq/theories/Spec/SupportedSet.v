(** C01 — the supported set: a committed snapshot of the (mnemonic, addressing mode, index,
    width) combinations the assembler accepted when the property was written (227 of them).
    "Every combination in the assembler's supported set keeps assembling": the live table is
    checked against this list on every run ([C01_supported_kept_generic]), and the oracle
    demands that a statement whose descriptor is in the list is accepted.

    Generated once from /repo's [snes_opcode_table] by a throw-away script; NOT regenerated. *)
From A816 Require Export Base.Prelude Model.Ast.
Open Scope Z_scope.

(** What kind of emitter serves the combination: no operand, 8-bit relative branch, or an
    operand of a given width. *)
Inductive pkind := PNoOperand | PRel | PWidth (w : vsize).
Record pcombo := P { p_mode : amode; p_idx : option str; p_kind : pkind }.

Definition pkind_eqb (a b : pkind) : bool :=
  match a, b with
  | PNoOperand, PNoOperand | PRel, PRel => true
  | PWidth x, PWidth y => vsize_eqb x y
  | _, _ => false
  end.
Definition pcombo_eqb (a b : pcombo) : bool :=
  amode_eqb (p_mode a) (p_mode b) && option_eqb str_eqb (p_idx a) (p_idx b) && pkind_eqb (p_kind a) (p_kind b).

(** mnemonic (lower case, as the table spells it) -> supported combinations *)
Definition pinned : list (str * list pcombo) := [
  ([110;111;112] (* nop *), [P M_none None PNoOperand]);
  ([114;101;112] (* rep *), [P M_immediate None (PWidth SzB)]);
  ([99;112;120] (* cpx *), [P M_immediate None (PWidth SzB); P M_immediate None (PWidth SzW); P M_direct None (PWidth SzB); P M_direct None (PWidth SzW)]);
  ([99;112;121] (* cpy *), [P M_immediate None (PWidth SzB); P M_immediate None (PWidth SzW); P M_direct None (PWidth SzB); P M_direct None (PWidth SzW)]);
  ([100;101;99] (* dec *), [P M_none None PNoOperand; P M_direct None (PWidth SzB); P M_direct None (PWidth SzW); P M_direct_indexed (Some [120]) (PWidth SzB); P M_direct_indexed (Some [120]) (PWidth SzW)]);
  ([108;100;97] (* lda *), [P M_immediate None (PWidth SzB); P M_immediate None (PWidth SzW); P M_direct None (PWidth SzB); P M_direct None (PWidth SzW); P M_direct None (PWidth SzL); P M_direct_indexed (Some [120]) (PWidth SzB); P M_direct_indexed (Some [120]) (PWidth SzW); P M_direct_indexed (Some [120]) (PWidth SzL); P M_direct_indexed (Some [121]) (PWidth SzW); P M_direct_indexed (Some [115]) (PWidth SzB); P M_indirect_indexed_long (Some [121]) (PWidth SzB); P M_indirect_indexed (Some [121]) (PWidth SzB); P M_indirect_long None (PWidth SzB); P M_indirect None (PWidth SzB); P M_dp_or_sr_indirect_indexed (Some [120]) (PWidth SzB); P M_stack_indexed_indirect_indexed (Some [121]) (PWidth SzB)]);
  ([111;114;97] (* ora *), [P M_immediate None (PWidth SzB); P M_immediate None (PWidth SzW); P M_direct None (PWidth SzB); P M_direct None (PWidth SzW); P M_direct None (PWidth SzL); P M_direct_indexed (Some [120]) (PWidth SzW); P M_direct_indexed (Some [120]) (PWidth SzL); P M_direct_indexed (Some [121]) (PWidth SzW); P M_indirect_indexed_long (Some [121]) (PWidth SzB)]);
  ([101;111;114] (* eor *), [P M_immediate None (PWidth SzB); P M_direct None (PWidth SzB); P M_direct None (PWidth SzW); P M_direct None (PWidth SzL); P M_direct_indexed (Some [120]) (PWidth SzW); P M_direct_indexed (Some [120]) (PWidth SzL); P M_direct_indexed (Some [121]) (PWidth SzW); P M_direct_indexed (Some [115]) (PWidth SzB); P M_indirect None (PWidth SzB); P M_indirect_long None (PWidth SzB); P M_indirect_indexed (Some [121]) (PWidth SzB); P M_indirect_indexed_long (Some [121]) (PWidth SzB); P M_dp_or_sr_indirect_indexed (Some [120]) (PWidth SzB); P M_stack_indexed_indirect_indexed (Some [121]) (PWidth SzB)]);
  ([108;100;120] (* ldx *), [P M_immediate None (PWidth SzB); P M_immediate None (PWidth SzW); P M_direct None (PWidth SzB); P M_direct None (PWidth SzW); P M_direct_indexed (Some [121]) (PWidth SzB); P M_direct_indexed (Some [121]) (PWidth SzW)]);
  ([108;100;121] (* ldy *), [P M_immediate None (PWidth SzB); P M_immediate None (PWidth SzW); P M_direct None (PWidth SzB); P M_direct None (PWidth SzW); P M_direct_indexed (Some [120]) (PWidth SzB); P M_direct_indexed (Some [120]) (PWidth SzW)]);
  ([108;115;114] (* lsr *), [P M_none None PNoOperand; P M_direct None (PWidth SzB); P M_direct None (PWidth SzW); P M_direct_indexed (Some [120]) (PWidth SzB); P M_direct_indexed (Some [120]) (PWidth SzW)]);
  ([106;115;114] (* jsr *), [P M_direct None (PWidth SzW); P M_direct None (PWidth SzL)]);
  ([106;109;112] (* jmp *), [P M_direct None (PWidth SzW); P M_direct None (PWidth SzL); P M_indirect None (PWidth SzW); P M_indirect_long None (PWidth SzW)]);
  ([105;110;99] (* inc *), [P M_none None PNoOperand; P M_direct None (PWidth SzB); P M_direct None (PWidth SzW); P M_direct_indexed (Some [120]) (PWidth SzB); P M_direct_indexed (Some [120]) (PWidth SzW)]);
  ([105;110;120] (* inx *), [P M_none None PNoOperand]);
  ([105;110;121] (* iny *), [P M_none None PNoOperand]);
  ([100;101;120] (* dex *), [P M_none None PNoOperand]);
  ([100;101;121] (* dey *), [P M_none None PNoOperand]);
  ([97;100;99] (* adc *), [P M_immediate None (PWidth SzB); P M_immediate None (PWidth SzW); P M_direct None (PWidth SzB); P M_direct None (PWidth SzW); P M_direct None (PWidth SzL); P M_direct_indexed (Some [120]) (PWidth SzB); P M_direct_indexed (Some [120]) (PWidth SzW); P M_direct_indexed (Some [120]) (PWidth SzL); P M_direct_indexed (Some [121]) (PWidth SzW); P M_direct_indexed (Some [115]) (PWidth SzB); P M_indirect None (PWidth SzB); P M_indirect_indexed (Some [121]) (PWidth SzB); P M_indirect_long None (PWidth SzB); P M_indirect_indexed_long (Some [121]) (PWidth SzB)]);
  ([97;110;100] (* and *), [P M_immediate None (PWidth SzB); P M_immediate None (PWidth SzW); P M_direct None (PWidth SzB); P M_direct None (PWidth SzW); P M_direct None (PWidth SzL); P M_direct_indexed (Some [120]) (PWidth SzB); P M_direct_indexed (Some [120]) (PWidth SzW); P M_direct_indexed (Some [120]) (PWidth SzL); P M_direct_indexed (Some [121]) (PWidth SzW); P M_indirect None (PWidth SzB); P M_indirect_indexed (Some [121]) (PWidth SzB); P M_indirect_long None (PWidth SzB); P M_indirect_indexed_long (Some [121]) (PWidth SzB)]);
  ([97;115;108] (* asl *), [P M_none None PNoOperand; P M_direct None (PWidth SzB); P M_direct None (PWidth SzW); P M_direct_indexed (Some [120]) (PWidth SzB); P M_direct_indexed (Some [120]) (PWidth SzW)]);
  ([98;99;99] (* bcc *), [P M_direct None PRel]);
  ([98;99;115] (* bcs *), [P M_direct None PRel]);
  ([98;101;113] (* beq *), [P M_direct None PRel]);
  ([98;105;116] (* bit *), [P M_immediate None (PWidth SzB); P M_immediate None (PWidth SzW); P M_direct None (PWidth SzB); P M_direct None (PWidth SzW); P M_direct_indexed (Some [120]) (PWidth SzB); P M_direct_indexed (Some [120]) (PWidth SzW)]);
  ([98;109;105] (* bmi *), [P M_direct None PRel]);
  ([98;110;101] (* bne *), [P M_direct None PRel]);
  ([98;112;108] (* bpl *), [P M_direct None PRel]);
  ([98;114;97] (* bra *), [P M_direct None PRel]);
  ([98;114;107] (* brk *), [P M_none None PNoOperand]);
  ([99;108;99] (* clc *), [P M_none None PNoOperand]);
  ([99;109;112] (* cmp *), [P M_immediate None (PWidth SzB); P M_immediate None (PWidth SzW); P M_direct None (PWidth SzB); P M_direct None (PWidth SzW); P M_direct None (PWidth SzL); P M_direct_indexed (Some [120]) (PWidth SzW); P M_direct_indexed (Some [120]) (PWidth SzL); P M_direct_indexed (Some [121]) (PWidth SzW)]);
  ([112;101;97] (* pea *), [P M_direct None (PWidth SzW)]);
  ([112;101;105] (* pei *), [P M_indirect None (PWidth SzB)]);
  ([112;104;97] (* pha *), [P M_none None PNoOperand]);
  ([112;108;97] (* pla *), [P M_none None PNoOperand]);
  ([112;104;121] (* phy *), [P M_none None PNoOperand]);
  ([112;108;121] (* ply *), [P M_none None PNoOperand]);
  ([112;104;120] (* phx *), [P M_none None PNoOperand]);
  ([112;108;120] (* plx *), [P M_none None PNoOperand]);
  ([112;104;112] (* php *), [P M_none None PNoOperand]);
  ([112;108;112] (* plp *), [P M_none None PNoOperand]);
  ([112;104;98] (* phb *), [P M_none None PNoOperand]);
  ([112;108;98] (* plb *), [P M_none None PNoOperand]);
  ([112;104;100] (* phd *), [P M_none None PNoOperand]);
  ([112;108;100] (* pld *), [P M_none None PNoOperand]);
  ([112;104;107] (* phk *), [P M_none None PNoOperand]);
  ([114;111;108] (* rol *), [P M_none None PNoOperand; P M_direct None (PWidth SzB); P M_direct None (PWidth SzW); P M_direct_indexed (Some [120]) (PWidth SzB); P M_direct_indexed (Some [120]) (PWidth SzW)]);
  ([114;111;114] (* ror *), [P M_none None PNoOperand; P M_direct None (PWidth SzB); P M_direct None (PWidth SzW); P M_direct_indexed (Some [120]) (PWidth SzB); P M_direct_indexed (Some [120]) (PWidth SzW)]);
  ([114;116;105] (* rti *), [P M_none None PNoOperand]);
  ([114;116;108] (* rtl *), [P M_none None PNoOperand]);
  ([114;116;115] (* rts *), [P M_none None PNoOperand]);
  ([115;98;99] (* sbc *), [P M_immediate None (PWidth SzB); P M_immediate None (PWidth SzW); P M_direct None (PWidth SzB); P M_direct None (PWidth SzW); P M_direct None (PWidth SzL); P M_direct_indexed (Some [120]) (PWidth SzB); P M_direct_indexed (Some [120]) (PWidth SzW); P M_direct_indexed (Some [120]) (PWidth SzL); P M_direct_indexed (Some [121]) (PWidth SzW); P M_indirect None (PWidth SzB); P M_indirect_indexed (Some [121]) (PWidth SzB); P M_indirect_indexed_long (Some [121]) (PWidth SzB)]);
  ([115;101;99] (* sec *), [P M_none None PNoOperand]);
  ([115;101;100] (* sed *), [P M_none None PNoOperand]);
  ([115;101;105] (* sei *), [P M_none None PNoOperand]);
  ([115;101;112] (* sep *), [P M_immediate None (PWidth SzB)]);
  ([115;116;97] (* sta *), [P M_direct None (PWidth SzB); P M_direct None (PWidth SzW); P M_direct None (PWidth SzL); P M_indirect_long None (PWidth SzB); P M_indirect None (PWidth SzB); P M_indirect_indexed (Some [121]) (PWidth SzB); P M_indirect_indexed_long (Some [121]) (PWidth SzB); P M_direct_indexed (Some [120]) (PWidth SzB); P M_direct_indexed (Some [120]) (PWidth SzW); P M_direct_indexed (Some [120]) (PWidth SzL); P M_direct_indexed (Some [121]) (PWidth SzW); P M_direct_indexed (Some [115]) (PWidth SzB)]);
  ([115;116;120] (* stx *), [P M_direct None (PWidth SzB); P M_direct None (PWidth SzW); P M_direct_indexed (Some [121]) (PWidth SzB)]);
  ([115;116;121] (* sty *), [P M_direct None (PWidth SzB); P M_direct None (PWidth SzW); P M_direct_indexed (Some [120]) (PWidth SzB)]);
  ([115;116;122] (* stz *), [P M_direct None (PWidth SzB); P M_direct None (PWidth SzW); P M_direct_indexed (Some [120]) (PWidth SzB); P M_direct_indexed (Some [120]) (PWidth SzW)]);
  ([115;116;112] (* stp *), [P M_none None PNoOperand]);
  ([116;97;120] (* tax *), [P M_none None PNoOperand]);
  ([116;97;121] (* tay *), [P M_none None PNoOperand]);
  ([116;99;100] (* tcd *), [P M_none None PNoOperand]);
  ([116;99;115] (* tcs *), [P M_none None PNoOperand]);
  ([116;100;99] (* tdc *), [P M_none None PNoOperand]);
  ([116;114;98] (* trb *), [P M_direct None (PWidth SzB); P M_direct None (PWidth SzW)]);
  ([116;115;98] (* tsb *), [P M_direct None (PWidth SzB); P M_direct None (PWidth SzW)]);
  ([116;115;99] (* tsc *), [P M_none None PNoOperand]);
  ([116;115;120] (* tsx *), [P M_none None PNoOperand]);
  ([116;120;97] (* txa *), [P M_none None PNoOperand]);
  ([116;120;115] (* txs *), [P M_none None PNoOperand]);
  ([116;120;121] (* txy *), [P M_none None PNoOperand]);
  ([116;121;97] (* tya *), [P M_none None PNoOperand]);
  ([116;121;120] (* tyx *), [P M_none None PNoOperand]);
  ([119;97;105] (* wai *), [P M_none None PNoOperand]);
  ([120;98;97] (* xba *), [P M_none None PNoOperand]);
  ([120;99;101] (* xce *), [P M_none None PNoOperand])].

Definition pinned_flat : list (str * pcombo) :=
  flat_map (fun r => map (fun c => (fst r, c)) (snd r)) pinned.

Definition is_pinned (m : str) (c : pcombo) : bool :=
  existsb (fun r => str_eqb m (fst r) && existsb (pcombo_eqb c) (snd r)) pinned.
