(** Specification side of C18: what "table-encoded text" means, written without reference to the
    implementation's loops or dictionaries.  Only the data types ([entry], [stmt]) are shared with
    Model/Table.v; none of its functions is used here.

    A table is the list of its lines in file order: (text, code, ignore count). *)
From A816 Require Export Model.Table.

(** What the tokeniser does at one position. *)
Inductive item :=
| IJoker (v : Z)                    (* "[0xNN]"  -> the raw byte *)
| IMatch (t : str) (c : bytes)      (* entry text [t] matched -> its code [c] *)
| ISkip (ch : Z).                   (* a character without entry is skipped *)

Definition item_bytes (it : item) : bytes :=
  match it with IJoker v => [v] | IMatch _ c => c | ISkip _ => [] end.
Definition item_text (it : item) : str :=
  match it with IMatch t _ => t | _ => [] end.
Definition bytes_of (its : list item) : bytes := flat_map item_bytes its.
(** the texts of the matched entries, in order, concatenated *)
Definition texts_of (its : list item) : str := flat_map item_text its.
Definition not_joker (it : item) : Prop := match it with IJoker _ => False | _ => True end.
Definition not_joker_b (it : item) : bool := match it with IJoker _ => false | _ => true end.

(** Hexadecimal escapes "[0x" digits "]". *)
Definition hex_digit (c : Z) : Prop := 48 <= c <= 57 \/ 65 <= c <= 70 \/ 97 <= c <= 102.
Definition digit_of (c : Z) : Z :=
  if c <? 58 then c - 48 else if c <? 71 then 10 + (c - 65) else 10 + (c - 97).
(** positional value, least significant digit first *)
Fixpoint hex_value_rev (rds : list Z) : Z :=
  match rds with [] => 0 | d :: r => digit_of d + 16 * hex_value_rev r end.
Definition hex_value (ds : list Z) : Z := hex_value_rev (rev ds).

(** [s] starts with the escape of value [v]; [rest] follows it. *)
Definition joker_at (s : str) (v : Z) (rest : str) : Prop :=
  exists ds, ds <> [] /\ Forall hex_digit ds /\ s = [91; 48; 120] ++ ds ++ 93 :: rest /\ v = hex_value ds.
Definition no_joker (s : str) : Prop := forall v rest, ~ joker_at s v rest.

(** The code a table gives to a text: the one on the LAST line carrying that text. *)
Definition assigns (tbl : list entry) (t : str) (c : bytes) : Prop :=
  exists pre ig post, tbl = pre ++ (t, c, ig) :: post /\ forall e, In e post -> e_text e <> t.
Definition has_text (tbl : list entry) (t : str) : Prop := exists e, In e tbl /\ e_text e = t.

(** [t] (non-empty) is the LONGEST entry text that is a prefix of [s]; [rest] follows it. *)
Definition best_match (tbl : list entry) (s t : str) (c : bytes) (rest : str) : Prop :=
  t <> [] /\ s = t ++ rest /\ assigns tbl t c /\
  forall t' r', t' <> [] -> has_text tbl t' -> s = t' ++ r' -> (length t' <= length t)%nat.
Definition no_match (tbl : list entry) (s : str) : Prop :=
  forall t' r', t' <> [] -> has_text tbl t' -> s <> t' ++ r'.

(** Greedy tokenisation, with the choices recorded. *)
Inductive Toks (tbl : list entry) : str -> list item -> Prop :=
| Toks_nil : Toks tbl [] []
| Toks_joker s v rest its :
    joker_at s v rest -> v <= 255 -> Toks tbl rest its -> Toks tbl s (IJoker v :: its)
| Toks_match s t c rest its :
    no_joker s -> best_match tbl s t c rest -> Toks tbl rest its -> Toks tbl s (IMatch t c :: its)
| Toks_skip ch rest its :
    no_joker (ch :: rest) -> no_match tbl (ch :: rest) -> Toks tbl rest its ->
    Toks tbl (ch :: rest) (ISkip ch :: its).

(** Greedy tokenisation, bytes only: [Tok tbl s bs] = "[bs] is the table encoding of [s]". *)
Inductive Tok (tbl : list entry) : str -> bytes -> Prop :=
| Tok_nil : Tok tbl [] []
| Tok_joker s v rest bs :
    joker_at s v rest -> v <= 255 -> Tok tbl rest bs -> Tok tbl s (v :: bs)
| Tok_match s t c rest bs :
    no_joker s -> best_match tbl s t c rest -> Tok tbl rest bs -> Tok tbl s (c ++ bs)
| Tok_skip ch rest bs :
    no_joker (ch :: rest) -> no_match tbl (ch :: rest) -> Tok tbl rest bs -> Tok tbl (ch :: rest) bs.

(** No escape starts anywhere in [s]. *)
Definition joker_free (s : str) : Prop := forall pre suf, s = pre ++ suf -> no_joker suf.

(** Tables for which decoding is the inverse of encoding. *)
Definition is_prefix (a b : list Z) : Prop := exists r, b = a ++ r.
Definition codes_unique (tbl : list entry) : Prop :=      (* a code denotes one text *)
  forall e1 e2, In e1 tbl -> In e2 tbl -> e_code e1 = e_code e2 -> e_text e1 = e_text e2.
Definition codes_nonempty (tbl : list entry) : Prop := forall e, In e tbl -> e_code e <> [].
Definition prefix_free (tbl : list entry) : Prop :=
  forall e1 e2, In e1 tbl -> In e2 tbl -> is_prefix (e_code e1) (e_code e2) -> e_code e1 = e_code e2.
Definition no_ignore (tbl : list entry) : Prop := forall e, In e tbl -> e_ignore e = None.
Definition rt_table (tbl : list entry) : Prop :=
  codes_unique tbl /\ codes_nonempty tbl /\ prefix_free tbl /\ no_ignore tbl.

Definition single_char_texts (tbl : list entry) : Prop := forall e, In e tbl -> length (e_text e) = 1%nat.
Definition over_alphabet (tbl : list entry) (s : str) : Prop := forall ch, In ch s -> has_text tbl [ch].

(** Lexical scoping of [.table]: a [.text] is encoded with the table loaded last before it in the
    innermost enclosing block that loaded one before it (environment-passing semantics). *)
Fixpoint spec_stmt (cur : option (list entry)) (st : stmt) : option (list entry) * list (option (list entry) * str) :=
  match st with
  | STable es => (Some es, [])
  | SText s => (cur, [(cur, s)])
  | SBlock body =>
      (cur, (fix go (l : list stmt) (c : option (list entry)) : list (option (list entry) * str) :=
               match l with
               | [] => []
               | x :: l' => let r := spec_stmt c x in snd r ++ go l' (fst r)
               end) body cur)
  end.
Fixpoint spec_body (l : list stmt) (c : option (list entry)) : list (option (list entry) * str) :=
  match l with
  | [] => []
  | x :: l' => let r := spec_stmt c x in snd r ++ spec_body l' (fst r)
  end.
Definition spec_texts (prog : list stmt) : list (option (list entry) * str) := spec_body prog None.

(** The bytes a program emits for its texts: every [.text] encoded under its lexically visible table. *)
Inductive EmitSpec : list (option (list entry) * str) -> bytes -> Prop :=
| ES_nil : EmitSpec [] []
| ES_cons es s r b bs : Tok es s b -> EmitSpec r bs -> EmitSpec ((Some es, s) :: r) (b ++ bs).

(** ---------------------------------------------------------------------------------------
    Boolean / executable counterparts used by the oracle (proved equivalent in Proofs/TableProofs.v).
    They are written differently from the model on purpose: no dictionary, no length loop, no
    fuel — one scan over the table per position and a skip counter over the characters. *)

Fixpoint is_prefix_b (t s : list Z) : bool :=
  match t, s with
  | [], _ => true
  | a :: t', b :: s' => (a =? b) && is_prefix_b t' s'
  | _ :: _, [] => false
  end.

Definition hex_digit_b (c : Z) : bool :=
  ((48 <=? c) && (c <=? 57)) || ((65 <=? c) && (c <=? 70)) || ((97 <=? c) && (c <=? 102)).

(** reads digits up to the closing bracket: Some (value, number of digits) *)
Fixpoint read_hex (s : str) (acc : Z) (n : nat) : option (Z * nat) :=
  match s with
  | [] => None
  | c :: r => if hex_digit_b c then read_hex r (16 * acc + digit_of c) (S n)
              else if (c =? 93) && negb (Nat.eqb n 0) then Some (acc, n) else None
  end.
Definition joker_b (s : str) : option (Z * nat) :=
  match s with
  | a :: b :: c :: r => if (a =? 91) && (b =? 48) && (c =? 120) then read_hex r 0 0 else None
  | _ => None
  end.

Definition nonempty_b (l : list Z) : bool := match l with [] => false | _ => true end.
Definition better (s : str) (acc : option (str * bytes)) (e : entry) : option (str * bytes) :=
  if nonempty_b (e_text e) && is_prefix_b (e_text e) s then
    match acc with
    | Some (t, _) => if (length t <=? length (e_text e))%nat then Some (e_text e, e_code e) else acc
    | None => Some (e_text e, e_code e)
    end
  else acc.
Definition best_b (tbl : list entry) (s : str) : option (str * bytes) := fold_left (better s) tbl None.

Definition opt_cons {A} (x : A) (o : option (list A)) : option (list A) :=
  match o with Some l => Some (x :: l) | None => None end.

(** [skip] = characters still covered by the previous item. *)
Fixpoint tokb (tbl : list entry) (s : str) (skip : nat) : option (list item) :=
  match s with
  | [] => Some []
  | ch :: rest =>
      match skip with
      | S k => tokb tbl rest k
      | O =>
          match joker_b s with
          | Some (v, n) => if v <=? 255 then opt_cons (IJoker v) (tokb tbl rest (n + 3)) else None
          | None =>
              match best_b tbl s with
              | Some (t, c) => opt_cons (IMatch t c) (tokb tbl rest (length t - 1))
              | None => opt_cons (ISkip ch) (tokb tbl rest 0)
              end
          end
      end
  end.
Definition tokenise (tbl : list entry) (s : str) : option (list item) := tokb tbl s 0.

Definition is_none {A} (o : option A) : bool := match o with None => true | Some _ => false end.
Definition rt_table_b (tbl : list entry) : bool :=
  forallb (fun e1 =>
    nonempty_b (e_code e1) && is_none (e_ignore e1) &&
    forallb (fun e2 => negb (is_prefix_b (e_code e1) (e_code e2)) ||
                       (list_eqb Z.eqb (e_code e1) (e_code e2) && list_eqb Z.eqb (e_text e1) (e_text e2))) tbl) tbl.
