"""Runs the real assembler on a program (source text + files + options) and returns what the
correspondence needs: the AST the real parser built, the writer calls, the labels, the error class,
and (optionally) a per-node trace obtained by wrapping pc_after/emit from outside."""
from __future__ import annotations

import contextlib
import os
import shutil
import tempfile
from pathlib import Path

from . import common as C
from .obs import exc_kind

ROMS = {"low": "low_rom", "low2": "low_rom_2", "high": "high_rom"}


class StubWriter:
    def __init__(self):
        self.calls = []

    def begin(self):
        pass

    def write_block_header(self, block, block_address):
        pass

    def write_block(self, block, block_address):
        self.calls.append((bytes(block), int(block_address)))

    def end(self):
        pass


@contextlib.contextmanager
def sandbox(files: dict | None):
    """A private directory under /verif/work holding the case's files; cwd is moved there."""
    C.WORK.mkdir(exist_ok=True)
    d = tempfile.mkdtemp(prefix="case-", dir=C.WORK)
    old = os.getcwd()
    try:
        for name, content in (files or {}).items():
            p = Path(d) / name
            p.parent.mkdir(parents=True, exist_ok=True)
            if isinstance(content, dict) and "tbl" in content:      # a .tbl file given as (text, code bytes) entries
                p.write_text("".join(f"{bytes(code).hex().upper()}={text}\n" for text, code in content["tbl"]), encoding="utf-8")
            elif isinstance(content, str):
                p.write_text(content, encoding="utf-8")
            else:
                p.write_bytes(bytes(content))
        os.chdir(d)
        yield d
    finally:
        os.chdir(old)
        shutil.rmtree(d, ignore_errors=True)


_TRACE = None          # list being filled, or None
_PROGRAM = None
_WRAPPED = False
_ROLES = None          # {node class: canonical role name}


def node_roles() -> dict:
    """Which node class plays which role, found by BEHAVIOUR (what the code generator builds for `*=`, `@=`, a label,
    `.incbin`, `.include_ips`), not by class name: a renamed or re-organised class keeps its role.  The canonical names
    are only labels the rest of the harness uses.  A probe that fails is a harness fault (raised), never a verdict."""
    global _ROLES
    if _ROLES is not None:
        return _ROLES
    from a816.program import Program
    patch = b"PATCH" + (0x10).to_bytes(3, "big") + (1).to_bytes(2, "big") + b"\x01" + b"EOF"
    probes = [("CodePositionNode", "*=0x008000\n", lambda ns: ns[0]),
              ("RelocationAddressNode", "@=0x008000\n", lambda ns: ns[0]),
              ("LabelNode", "zz_probe:\n", lambda ns: ns[0]),
              ("IncludeIpsNode", ".include_ips 'zz_probe.ips', 0\n", lambda ns: ns[0]),
              ("BinaryNode", ".incbin 'zz_probe.bin'\n", lambda ns: [n for n in ns if hasattr(n, "symbol_base")][0])]
    roles = {}
    with sandbox({"zz_probe.ips": patch, "zz_probe.bin": b"\x01\x02"}):
        for name, src, pick in probes:
            err, nodes = Program().parser.parse(src, "zz_probe.s")
            if err is not None or not nodes:
                raise RuntimeError(f"harness probe for the role {name} failed: {err}")
            roles[type(pick(nodes))] = name
    if len(roles) != len(probes):
        raise RuntimeError(f"harness probes found {len(roles)} distinct node classes for {len(probes)} roles")
    _ROLES = roles
    return roles


def role_name(node) -> str:
    return node_roles().get(type(node)) or type(node).__name__


def _install_wrappers():
    global _WRAPPED
    if _WRAPPED:
        return
    from a816.parse import nodes as N
    node_roles()
    classes = [c for c in vars(N).values() if isinstance(c, type) and hasattr(c, "pc_after") and hasattr(c, "emit")
               and c.__module__ == N.__name__ and c.__name__ not in ("NodeProtocol", "AbstractTextNode")]
    for cls in classes:
        for meth in ("pc_after", "emit"):
            if meth not in cls.__dict__:
                continue
            orig = cls.__dict__[meth]

            def make(orig, meth):
                def wrapper(self, addr):
                    if _TRACE is None:
                        return orig(self, addr)
                    pc = _PROGRAM.resolver.pc if _PROGRAM is not None else None
                    try:
                        out = orig(self, addr)
                    except BaseException:
                        _TRACE.append((meth, id(self), role_name(self), addr.logical_value, pc, None))
                        raise
                    _TRACE.append((meth, id(self), role_name(self), addr.logical_value, pc,
                                   out.logical_value if meth == "pc_after" else bytes(out)))
                    return out
                return wrapper
            setattr(cls, meth, make(orig, meth))
    # AbstractTextNode subclasses inherit pc_after/emit: wrap on the base class
    for meth in ("pc_after", "emit"):
        orig = N.AbstractTextNode.__dict__[meth]

        def make2(orig, meth):
            def wrapper(self, addr):
                if _TRACE is None:
                    return orig(self, addr)
                pc = _PROGRAM.resolver.pc if _PROGRAM is not None else None
                try:
                    out = orig(self, addr)
                except BaseException:
                    _TRACE.append((meth, id(self), role_name(self), addr.logical_value, pc, None))
                    raise
                _TRACE.append((meth, id(self), role_name(self), addr.logical_value, pc,
                               out.logical_value if meth == "pc_after" else bytes(out)))
                return out
            return wrapper
        setattr(N.AbstractTextNode, meth, make2(orig, meth))
    _WRAPPED = True


def parse(src: str, files: dict | None = None, filename: str = "m.s"):
    """(error string or None, list[AstNode]) from the real scanner+parser, inside the sandbox."""
    from a816.parse.mzparser import MZParser
    with sandbox(files):
        r = MZParser.parse_as_ast(src, filename)
    return r.error, r.nodes


def assemble(src: str, files: dict | None = None, rom: str | None = None, defines: dict | None = None,
             trace: bool = False, filename: str = "m.s") -> dict:
    """{'ok': {'blocks': [[bytes-as-list, addr]...], 'labels': [[name, value]...]}} | {'err': kind, 'msg': ...}
    plus 'trace' when asked: {'nodes': [class names], 'pass1': [...], 'pass2': [...], 'emit': [...]}"""
    global _TRACE, _PROGRAM
    import logging
    logging.disable(logging.CRITICAL)
    from a816.cpu.cpu_65c816 import RomType
    from a816.program import Program
    if trace:
        _install_wrappers()
    with sandbox(files):
        program = Program()
        if rom is not None:
            program.resolver.rom_type = RomType[ROMS[rom]]
        for k, v in (defines or {}).items():
            program.resolver.current_scope.add_symbol(k, v)
        writer = StubWriter()
        captured = {}
        if trace:
            orig_parse = program.parser.parse

            def parse_capture(text, fname=""):
                err, nodes = orig_parse(text, fname)
                captured["nodes"] = nodes
                return err, nodes
            program.parser.parse = parse_capture
            _TRACE, _PROGRAM = [], program
            orig_reset = program.resolver_reset

            def reset_marker():
                if _TRACE is not None:
                    _TRACE.append(("reset", 0, "", 0, 0, None))
                return orig_reset()
            program.resolver_reset = reset_marker
        out: dict
        try:
            import io
            with contextlib.redirect_stdout(io.StringIO()):
                err = program.assemble_string_with_emitter(src, filename, writer)
            if err is not None:
                out = {"err": "EParse", "msg": str(err)[:400], "syntax": True}
            else:
                out = {"ok": {"blocks": [[list(b), a] for b, a in writer.calls],
                              "labels": [[n, v] for n, v in program.resolver.get_all_labels()]}}
        except Exception as e:
            if type(e).__name__ == "Timeout":
                raise
            out = {"err": exc_kind(e), "msg": f"{type(e).__name__}: {e}"[:400],
                   "partial_blocks": [[list(b), a] for b, a in writer.calls]}
        finally:
            tr, _TRACE, _PROGRAM = _TRACE, None, None
        if trace and "nodes" in captured:
            nodes = captured["nodes"]
            index = {id(n): i for i, n in enumerate(nodes)}
            p1, p2, em, resets = [], [], [], 0
            for meth, nid, cname, a, pc, res in tr or []:
                if meth == "reset":
                    resets += 1
                    continue
                if nid not in index:
                    continue
                rec = [index[nid], cname, a, pc, list(res) if isinstance(res, bytes) else res]
                if meth == "pc_after" and cname in ("LabelNode", "BinaryNode"):
                    nd = nodes[index[nid]]
                    rec.append(getattr(nd, "symbol_name", None) or getattr(nd, "symbol_base", None))
                if cname == "IncludeIpsNode" and meth == "emit":
                    # the records of the included patch (block_addr, block), as the node holds them
                    rec.append([[list(b), ba] for ba, b in getattr(nodes[index[nid]], "blocks", [])])
                if meth == "emit":
                    em.append(rec)
                elif resets == 0:
                    p1.append(rec)
                else:
                    p2.append(rec)
            out["trace"] = {"nodes": [role_name(n) for n in nodes], "pass1": p1, "pass2": p2, "emit": em,
                            "end_pc": program.resolver.pc}
    return out
