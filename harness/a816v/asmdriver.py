"""Runs the real assembler on a program (source text + files + options) and returns what the
correspondence needs: the AST the real parser built, the writer calls, the labels, the error class,
and (optionally) a per-node trace obtained by wrapping pc_after/emit from outside."""
from __future__ import annotations

import contextlib
import os
import shutil
import tempfile
from pathlib import Path

from . import common as C
from .obs import exc_kind

ROMS = {"low": "low_rom", "low2": "low_rom_2", "high": "high_rom"}


class StubWriter:
    def __init__(self):
        self.calls = []

    def begin(self):
        pass

    def write_block_header(self, block, block_address):
        pass

    def write_block(self, block, block_address):
        self.calls.append((bytes(block), int(block_address)))

    def end(self):
        pass


@contextlib.contextmanager
def sandbox(files: dict | None):
    """A private directory under /verif/work holding the case's files; cwd is moved there."""
    C.WORK.mkdir(exist_ok=True)
    d = tempfile.mkdtemp(prefix="case-", dir=C.WORK)
    old = os.getcwd()
    try:
        for name, content in (files or {}).items():
            p = Path(d) / name
            p.parent.mkdir(parents=True, exist_ok=True)
            if isinstance(content, dict) and "tbl" in content:      # a .tbl file given as (text, code bytes) entries
                p.write_text("".join(f"{bytes(code).hex().upper()}={text}\n" for text, code in content["tbl"]), encoding="utf-8")
            elif isinstance(content, str):
                p.write_text(content, encoding="utf-8")
            else:
                p.write_bytes(bytes(content))
        os.chdir(d)
        yield d
    finally:
        os.chdir(old)
        shutil.rmtree(d, ignore_errors=True)


_TRACE = None          # list being filled, or None
_PROGRAM = None
_ROLES = None          # {canonical role name: node class}, from probes
_SETPOS = [0]          # calls of Resolver.set_position seen by the spy (position moves announce themselves there)


class HarnessFault(RuntimeError):
    """The harness cannot instrument this tree (a name it relies on is gone): reported as a driver fault, never as a verdict."""


def node_roles() -> dict:
    """{role: class} for the roles the harness must recognise, found by what the code generator builds for a label, an
    `.incbin` and an `.include_ips` (not by class name; instances are matched with isinstance, so subclasses keep the
    role).  `*=` and `@=` are recognised per node by BEHAVIOUR instead (see _classify).  A probe that fails raises
    HarnessFault."""
    global _ROLES
    if _ROLES is not None:
        return _ROLES
    from a816.program import Program
    patch = b"PATCH" + (0x10).to_bytes(3, "big") + (1).to_bytes(2, "big") + b"\x01" + b"EOF"
    probes = [("LabelNode", "zz_probe:\n", lambda ns: ns[0]),
              ("IncludeIpsNode", ".include_ips 'zz_probe.ips', 0\n", lambda ns: ns[0]),
              ("BinaryNode", ".incbin 'zz_probe.bin'\n", lambda ns: [n for n in ns if hasattr(n, "symbol_base")][0])]
    roles = {}
    try:
        with sandbox({"zz_probe.ips": patch, "zz_probe.bin": b"\x01\x02"}):
            for name, src, pick in probes:
                err, nodes = Program().parser.parse(src, "zz_probe.s")
                if err is not None or not nodes:
                    raise HarnessFault(f"probe for the role {name} failed: {err}")
                roles[name] = type(pick(nodes))
    except HarnessFault:
        raise
    except Exception as e:
        raise HarnessFault(f"role probes failed: {type(e).__name__}: {e}") from e
    if len(set(roles.values())) != len(roles):
        raise HarnessFault("two of the label / binary / patch roles share one node class")
    _ROLES = roles
    return roles


def role_name(node) -> str:
    """Canonical role of a node as far as its class tells (labels, binaries, patches); positions are classified in assemble()."""
    for name, cls in node_roles().items():
        if isinstance(node, cls):
            return name
    return type(node).__name__


def _wrap_class(cls):
    """Record every pc_after / emit call on instances of [cls] (whatever module it lives in, whatever it inherits from)."""
    for meth in ("pc_after", "emit"):
        orig = getattr(cls, meth, None)
        if orig is None or getattr(orig, "_a816v_wrapped", False):
            continue

        def make(orig, meth):
            def wrapper(self, addr):
                if _TRACE is None:
                    return orig(self, addr)
                res = _PROGRAM.resolver if _PROGRAM is not None else None
                pc = res.pc if res is not None else None
                before = _SETPOS[0]
                try:
                    out = orig(self, addr)
                except BaseException:
                    _TRACE.append((meth, id(self), role_name(self), addr.logical_value, pc, None, None))
                    raise
                # what the call did besides returning: pc_after -> the resolver's relocation flag; emit -> whether it moved
                # the position through Resolver.set_position
                extra = (getattr(res, "reloc", None) if meth == "pc_after" else _SETPOS[0] > before)
                _TRACE.append((meth, id(self), role_name(self), addr.logical_value, pc,
                               out.logical_value if meth == "pc_after" else bytes(out), extra))
                return out
            wrapper._a816v_wrapped = True
            return wrapper
        setattr(cls, meth, make(orig, meth))


def _spy_set_position(resolver):
    cls = type(resolver)
    orig = getattr(cls, "set_position", None)
    if orig is None:
        raise HarnessFault("Resolver.set_position is gone")
    if getattr(orig, "_a816v_wrapped", False):
        return

    def spy(self, *a, **k):
        _SETPOS[0] += 1
        return orig(self, *a, **k)
    spy._a816v_wrapped = True
    cls.set_position = spy


def parse(src: str, files: dict | None = None, filename: str = "m.s"):
    """(error string or None, list[AstNode]) from the real scanner+parser, inside the sandbox."""
    from a816.parse.mzparser import MZParser
    with sandbox(files):
        r = MZParser.parse_as_ast(src, filename)
    return r.error, r.nodes


def assemble(src: str, files: dict | None = None, rom: str | None = None, defines: dict | None = None,
             trace: bool = False, filename: str = "m.s") -> dict:
    """{'ok': {'blocks': [[bytes-as-list, addr]...], 'labels': [[name, value]...]}} | {'err': kind, 'msg': ...}
    plus 'trace' when asked: {'nodes': [class names], 'pass1': [...], 'pass2': [...], 'emit': [...]}"""
    global _TRACE, _PROGRAM
    import logging
    logging.disable(logging.CRITICAL)
    from a816.cpu.cpu_65c816 import RomType
    from a816.program import Program
    if trace:
        node_roles()
    with sandbox(files):
        program = Program()
        if trace:
            _spy_set_position(program.resolver)
        if rom is not None:
            program.resolver.rom_type = RomType[ROMS[rom]]
        for k, v in (defines or {}).items():
            program.resolver.current_scope.add_symbol(k, v)
        writer = StubWriter()
        captured = {}
        if trace:
            orig_parse = program.parser.parse

            def parse_capture(text, fname=""):
                err, nodes = orig_parse(text, fname)
                captured["nodes"] = nodes
                for cls in {type(n) for n in nodes or []}:      # instrument exactly the classes this program is made of
                    _wrap_class(cls)
                return err, nodes
            program.parser.parse = parse_capture
            _TRACE, _PROGRAM = [], program
            orig_reset = program.resolver_reset

            def reset_marker():
                if _TRACE is not None:
                    _TRACE.append(("reset", 0, "", 0, 0, None, None))
                return orig_reset()
            program.resolver_reset = reset_marker
        out: dict
        try:
            import io
            with contextlib.redirect_stdout(io.StringIO()):
                err = program.assemble_string_with_emitter(src, filename, writer)
            if err is not None:
                out = {"err": "EParse", "msg": str(err)[:400], "syntax": True}
            else:
                out = {"ok": {"blocks": [[list(b), a] for b, a in writer.calls],
                              "labels": [[n, v] for n, v in program.resolver.get_all_labels()]}}
        except Exception as e:
            if type(e).__name__ == "Timeout":
                raise
            out = {"err": exc_kind(e), "msg": f"{type(e).__name__}: {e}"[:400],
                   "partial_blocks": [[list(b), a] for b, a in writer.calls]}
        finally:
            tr, _TRACE, _PROGRAM = _TRACE, None, None
        if trace and "nodes" in captured:
            nodes = captured["nodes"]
            index = {id(n): i for i, n in enumerate(nodes)}
            p1, p2, em, resets = [], [], [], 0
            # `*=` / `@=` by behaviour: a node whose emit moved the position (Resolver.set_position) and returned nothing is a
            # position move; it is a relocation (@=) when its pc_after left the resolver's relocation flag set, else an origin (*=)
            reloc_flag, moved = {}, {}
            for meth, nid, cname, a, pc, res, extra in tr or []:
                if meth == "pc_after":
                    reloc_flag[nid] = extra
                elif meth == "emit" and extra and res == b"":
                    moved[nid] = True

            def classify(nid, cname):
                if moved.get(nid):
                    if reloc_flag.get(nid) is None:
                        raise HarnessFault("cannot tell *= from @=: the resolver has no `reloc` flag")
                    return "RelocationAddressNode" if reloc_flag[nid] else "CodePositionNode"
                return cname
            for meth, nid, cname, a, pc, res, extra in tr or []:
                if meth == "reset":
                    resets += 1
                    continue
                if nid not in index:
                    continue
                cname = classify(nid, cname)
                rec = [index[nid], cname, a, pc, list(res) if isinstance(res, bytes) else res]
                if meth == "pc_after" and cname in ("LabelNode", "BinaryNode"):
                    nd = nodes[index[nid]]
                    rec.append(getattr(nd, "symbol_name", None) or getattr(nd, "symbol_base", None))
                if cname == "IncludeIpsNode" and meth == "emit":
                    # the records of the included patch (block_addr, block), as the node holds them
                    rec.append([[list(b), ba] for ba, b in getattr(nodes[index[nid]], "blocks", [])])
                if meth == "emit":
                    em.append(rec)
                elif resets == 0:
                    p1.append(rec)
                else:
                    p2.append(rec)
            # every node of the program must have been seen by some pass (a node the wrappers missed would make the
            # oracle read bytes "no node emitted"): otherwise this is a harness fault
            if "ok" in out and {r[0] for r in p1 + p2 + em} != set(range(len(nodes))):
                raise HarnessFault("some nodes of the program were not traced")
            out["trace"] = {"nodes": [classify(id(n), role_name(n)) for n in nodes], "pass1": p1, "pass2": p2, "emit": em,
                            "end_pc": program.resolver.pc}
    return out
