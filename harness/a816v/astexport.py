"""Exports tokens, expressions and ASTs of the real scanner/parser as Coq terms
(constructors of Model/Tokens.v, Model/Ast.v; short forms from Oracle/AstShip.v).

File names are bound once per term with `let Fk := <str> in ...` (see `with_files`)."""
from __future__ import annotations

from . import common as C

TT = {
    "EOF": "T_EOF", "COMMENT": "T_COMMENT", "LABEL": "T_LABEL", "IDENTIFIER": "T_IDENTIFIER",
    "QUOTED_STRING": "T_QUOTED_STRING", "OPERATOR": "T_OPERATOR", "LPAREN": "T_LPAREN", "RPAREN": "T_RPAREN",
    "SHARP": "T_SHARP", "RBRAKET": "T_RBRAKET", "LBRAKET": "T_LBRAKET", "RBRACE": "T_RBRACE", "LBRACE": "T_LBRACE",
    "ADDRESSING_MODE_INDEX": "T_ADDRESSING_MODE_INDEX", "OPCODE_SIZE": "T_OPCODE_SIZE",
    "OPCODE_NAKED": "T_OPCODE_NAKED", "OPCODE": "T_OPCODE", "COMMA": "T_COMMA", "KEYWORD": "T_KEYWORD",
    "NUMBER": "T_NUMBER", "STAR_EQ": "T_STAR_EQ", "AT_EQ": "T_AT_EQ", "EQUAL": "T_EQUAL", "ASSIGN": "T_ASSIGN",
    "DOUBLE_LBRACE": "T_DOUBLE_LBRACE", "DOUBLE_RBRACE": "T_DOUBLE_RBRACE", "BOOLEAN": "T_BOOLEAN", "TYPE": "T_TYPE",
}
MODES = ["M_none", "M_immediate", "M_direct", "M_direct_indexed", "M_indirect", "M_indirect_indexed",
         "M_indirect_long", "M_indirect_indexed_long", "M_dp_or_sr_indirect_indexed",
         "M_stack_indexed_indirect_indexed"]
SIZES = {"b": "SzB", "w": "SzW", "l": "SzL"}
DKIND = {"db": "D_db", "dw": "D_dw", "dl": "D_dl", "pointer": "D_pointer"}


class Unexportable(Exception):
    pass


class Exporter:
    def __init__(self, positions: bool = True):
        self.files: dict[str, str] = {}
        self.positions = positions

    def _file(self, name: str) -> str:
        if name not in self.files:
            self.files[name] = f"F{len(self.files)}"
        return self.files[name]

    def token(self, t) -> str:
        ty = TT.get(t.type.name)
        if ty is None:
            raise Unexportable(f"token type {t.type}")
        if t.position is None or not self.positions:
            return f"(tk0 {ty} {C.cstr(t.value)})"
        p = t.position
        return f"(tk {ty} {C.cstr(t.value)} {C.z(p.line)} {C.z(p.column)} {self._file(p.file.filename)})"

    def enode(self, e) -> str:
        from a816.parse.ast.nodes import BinOp, Parenthesis, Term, UnaryOp
        k = {Term: "eT", BinOp: "eB", UnaryOp: "eU", Parenthesis: "eP"}.get(type(e))
        if k is None:
            raise Unexportable(f"expr node {type(e)}")
        return f"({k} {self.token(e.token)})"

    def expr(self, e) -> str:
        return C.clist(e.tokens, self.enode)

    def _num2(self, v) -> str:
        if isinstance(v, tuple):
            if len(v) != 2 or not all(isinstance(x, int) and not isinstance(x, bool) for x in v):
                raise Unexportable(f"map attribute {v!r}")
            return f"(Some ({C.z(v[0])}, Some {C.z(v[1])}))"
        if isinstance(v, int) and not isinstance(v, bool):
            return f"(Some ({C.z(v)}, None))"
        raise Unexportable(f"map attribute {v!r}")

    def mapargs(self, a: dict) -> str:
        def one(k):
            if k not in a:
                return "None"
            v = a[k]
            if not isinstance(v, int) or isinstance(v, bool):
                raise Unexportable(f"map attribute {k}={v!r}")
            return f"(Some {C.z(v)})"
        return ("{| ma_identifier := %s; ma_writable := %s; ma_bank_range := %s; ma_addr_range := %s; "
                "ma_mask := %s; ma_mirror_bank_range := %s |}") % (
            one("identifier"), one("writable"),
            self._num2(a["bank_range"]) if "bank_range" in a else "None",
            self._num2(a["addr_range"]) if "addr_range" in a else "None",
            self._num2(a["mask"]) if "mask" in a else "None",
            self._num2(a["mirror_bank_range"]) if "mirror_bank_range" in a else "None")

    def body(self, nodes) -> str:
        return C.clist(nodes, self.ast)

    def ast(self, n) -> str:
        from a816.parse.ast import nodes as A
        fi = self.token(n.file_info)
        t = type(n)
        if t is A.BlockAstNode:
            return f"(ABlock {self.body(n.body)} {fi})"
        if t is A.CompoundAstNode:
            return f"(ACompound {self.body(n.body)} {fi})"
        if t is A.LabelAstNode:
            return f"(ALabel {C.cstr(n.label)} {fi})"
        if t is A.TextAstNode:
            return f"(AText {C.cstr(n.text)} {fi})"
        if t is A.AsciiAstNode:
            return f"(AAscii {C.cstr(n.text)} {fi})"
        if t is A.ScopeAstNode:
            return f"(AScope {C.cstr(n.name)} {self.body(n.body.body)} {self.token(n.body.file_info)} {fi})"
        if t is A.CodePositionAstNode:
            return f"(AStarEq {self.expr(n.expression)} {fi})"
        if t is A.CodeRelocationAstNode:
            return f"(AAtEq {self.expr(n.expression)} {fi})"
        if t is A.MapAstNode:
            return f"(AMap {self.mapargs(n.args)} {fi})"
        if t is A.IfAstNode:
            el = "None" if n.else_block is None else \
                f"(Some ({self.body(n.else_block.body)}, {self.token(n.else_block.file_info)}))"
            return (f"(AIf {self.expr(n.expression)} {self.body(n.block.body)} {self.token(n.block.file_info)} "
                    f"{el} {fi})")
        if t is A.MacroAstNode:
            return (f"(AMacro {C.cstr(n.name)} {C.clist(n.args, C.cstr)} {self.body(n.block.body)} "
                    f"{self.token(n.block.file_info)} {fi})")
        if t is A.MacroApplyAstNode:
            args = []
            for a in n.args:
                if isinstance(a, A.ExpressionAstNode):
                    args.append(f"(inl {self.expr(a)})")
                elif isinstance(a, A.BlockAstNode):
                    args.append(f"(inr ({self.body(a.body)}, {self.token(a.file_info)}))")
                else:
                    raise Unexportable(f"macro argument {type(a)}")
            return f"(AMacroApply {C.cstr(n.name)} [{';'.join(args)}] {fi})"
        if t is A.DataNode:
            return f"(AData {DKIND[n.kind]} {C.clist(n.data, self.expr)} {fi})"
        if t is A.TableAstNode:
            return f"(ATable {C.cstr(n.file_path)} {fi})"
        if t is A.IncludeIpsAstNode:
            return f"(AIncludeIps {C.cstr(n.file_path)} {self.expr(n.expression)} {fi})"
        if t is A.IncludeBinaryAstNode:
            return f"(AIncbin {C.cstr(n.file_path)} {fi})"
        if t is A.SymbolAffectationAstNode:
            return f"(ASymbol {C.cstr(n.symbol)} {self.expr(n.value)} {fi})"
        if t is A.AssignAstNode:
            return f"(AAssign {C.cstr(n.symbol)} {self.expr(n.value)} {fi})"
        if t is A.CodeLookupAstNode:
            return f"(ACodeLookup {C.cstr(n.symbol)} {fi})"
        if t is A.StructAstNode:
            fields = C.clist(list(n.fields.items()), lambda kv: C.cpair(C.cstr(kv[0]), C.cstr(kv[1])))
            return f"(AStruct {C.cstr(n.name)} {fields} {fi})"
        if t is A.ForAstNode:
            return (f"(AFor {C.cstr(n.symbol)} {self.expr(n.min_value)} {self.expr(n.max_value)} "
                    f"{self.body(n.body.body)} {self.token(n.body.file_info)} {fi})")
        if t is A.OpcodeAstNode:
            size = "None" if not n.value_size else f"(Some {SIZES[n.value_size]})"
            operand = "None" if n.operand is None else f"(Some {self.expr(n.operand)})"
            index = "None" if n.index is None else f"(Some {C.cstr(n.index)})"
            return f"(AOpcode {MODES[n.addressing_mode.value]} {C.cstr(n.opcode)} {size} {operand} {index} {fi})"
        raise Unexportable(f"ast node {t}")

    def with_files(self, term: str) -> str:
        """Wrap a term so that the file-name variables it mentions are bound."""
        pre = "".join(f"let {v} := {C.cstr(name)} in " for name, v in self.files.items())
        return f"({pre}{term})" if pre else term


def export_program(nodes, positions: bool = True) -> str:
    """list[AstNode] -> closed Coq term of type `list ast`."""
    ex = Exporter(positions)
    body = ex.body(nodes)
    return ex.with_files(body)


def export_tokens(tokens, positions: bool = True) -> str:
    ex = Exporter(positions)
    body = C.clist(tokens, ex.token)
    return ex.with_files(body)
