"""Shared plumbing: paths, Coq term printers, coqc runner, case-file sharding.

Everything here runs under /venv/bin/python with PYTHONPATH=/repo (set by bin/check), so
`import a816` always means /repo's current working tree.
"""
from __future__ import annotations

import concurrent.futures
import hashlib
import json
import os
import re
import shutil
import subprocess
import sys
import time
from pathlib import Path

sys.set_int_max_str_digits(0)

VERIF = Path(__file__).resolve().parents[2]
COQ = VERIF / "coq"
THEORIES = COQ / "theories"
WORK = VERIF / "work"
EVIDENCE = Path(os.environ.get("A816_EVIDENCE_DIR") or (VERIF / "evidence"))
REPLAYS = Path(os.environ.get("A816_REPLAY_DIR") or (VERIF / "replays"))
CORPUS = VERIF / "corpus"
REPO = Path(os.environ.get("A816_REPO", "/repo"))
NCPU = os.cpu_count() or 4

FORBIDDEN = re.compile(
    r"\b(Admitted|admit|Axiom|Axioms|Parameter|Parameters|Conjecture|Conjectures|Hypothesis|Hypotheses|Variable|Variables)\b"
    r"|\bContext\b|Declare\s+Module|native_compute|native_cast_no_check"
    r"|Unset\s+Guard|bypass_check|type-in-type|impredicative-set|Admit\s+Obligations|Unset\s+Positivity|Unset\s+Universe"
)


# ----------------------------------------------------------------------------- Coq terms

def z(n: int) -> str:
    if n.bit_length() > 8192:
        raise OverflowError("observed integer too large to ship to Coq")
    return str(n) if n >= 0 else f"({n})"


def zlist(xs) -> str:
    return "[" + ";".join(z(int(x)) for x in xs) + "]"


def cstr(s: str) -> str:
    """Python str -> Coq `str` (list of code points)."""
    return zlist(ord(c) for c in s)


def cbytes(b: bytes) -> str:
    return zlist(b)


def cbool(b: bool) -> str:
    return "true" if b else "false"


def copt(x, f) -> str:
    return "None" if x is None else f"(Some {f(x)})"


def clist(xs, f) -> str:
    return "[" + ";".join(f(x) for x in xs) + "]"


def cpair(a: str, b: str) -> str:
    return f"({a},{b})"


def nat(n: int) -> str:
    return f"{n}%nat"


# ----------------------------------------------------------------------------- coqc

def coq_flags(extra_q: list[tuple[Path, str]] = ()) -> list[str]:
    flags = ["-Q", str(THEORIES), "A816", "-w", "-notation-overridden,-deprecated-hint-without-locality"]
    for path, name in extra_q:
        flags += ["-Q", str(path), name]
    return flags


def coqc(file: Path, extra_q=(), timeout: int = 600) -> tuple[int, str]:
    """Compile one file; returns (exit status, stdout+stderr)."""
    cmd = ["coqc", *coq_flags(list(extra_q)), str(file)]
    try:
        p = subprocess.run(cmd, capture_output=True, text=True, timeout=timeout, cwd=str(file.parent),
                           preexec_fn=_unlimit_stack)
        return p.returncode, p.stdout + p.stderr
    except subprocess.TimeoutExpired as e:
        return 124, f"TIMEOUT after {timeout}s: {' '.join(cmd)}\n{e.stdout or ''}"


def _unlimit_stack():
    import resource
    try:
        resource.setrlimit(resource.RLIMIT_STACK, (resource.RLIM_INFINITY, resource.RLIM_INFINITY))
    except Exception:
        pass


def build_static(timeout: int = 1800) -> tuple[bool, str]:
    """(Re)build the static development under a lock; a no-op when up to date."""
    lock = COQ / ".build.lock"
    # regenerate the file list whenever the set of .v files changed
    # files named in coq/WIP (work in progress by a builder, one path per line) are left out of the build
    wip = set((COQ / "WIP").read_text().split()) if (COQ / "WIP").exists() else set()
    files = sorted(str(p.relative_to(COQ)) for p in THEORIES.rglob("*.v") if str(p.relative_to(COQ)) not in wip)
    listing = COQ / "_CoqProject.files"
    want = (COQ / "_CoqProject").read_text() + "\n".join(files) + "\n"
    if not listing.exists() or listing.read_text() != want:
        subprocess.run(f"flock {lock} true", shell=True)
        listing.write_text(want)
        mk = COQ / "Makefile.coq"
        if mk.exists():
            mk.unlink()
    cmd = (
        f"cd {COQ} && flock {lock} sh -c '"
        f"[ -f Makefile.coq ] || coq_makefile -f _CoqProject.files -o Makefile.coq >/dev/null; "
        f"make -f Makefile.coq -j{NCPU} 2>&1'"
    )
    try:
        p = subprocess.run(cmd, shell=True, capture_output=True, text=True, timeout=timeout)
    except subprocess.TimeoutExpired:
        return False, "static build timed out"
    return p.returncode == 0, p.stdout + p.stderr


def scan_forbidden() -> list[str]:
    """grep the development for anything that would add to the trusted base."""
    hits = []
    # files named in coq/WIP are not part of the build (a builder's work in progress; the file never exists in a
    # committed tree, where every .v file under theories/ is scanned)
    wip = set((COQ / "WIP").read_text().split()) if (COQ / "WIP").exists() else set()
    for p in sorted(THEORIES.rglob("*.v")):
        if str(p.relative_to(COQ)) in wip:
            continue
        text = p.read_text()
        # strip comments (non-nested is enough for this development: we never nest them)
        # string literals first (a "(*" inside a string would otherwise open a comment that hides real code)
        text = re.sub(r'"[^"\n]*"', lambda m: '"' + " " * (len(m.group()) - 2) + '"', text)
        stripped = re.sub(r"\(\*.*?\*\)", lambda m: re.sub(r"[^\n]", " ", m.group()), text, flags=re.S)
        in_section = 0
        for i, line in enumerate(stripped.splitlines(), 1):
            if re.match(r"\s*Section\b", line):
                in_section += 1
            if re.match(r"\s*End\b", line) and in_section:
                in_section -= 1
            for m in FORBIDDEN.finditer(line):
                w = m.group()
                if w in ("Variable", "Variables", "Hypothesis", "Hypotheses", "Context") and in_section:
                    continue
                hits.append(f"{p.relative_to(COQ)}:{i}: {w}")
    return hits


# ----------------------------------------------------------------------------- case files

_OUT_RE = re.compile(r"=\s*\(\s*(\[[^\]]*\])\s*,\s*(\[[^\]]*\])\s*\)", re.S)


def _parse_nat_list(s: str) -> list[int]:
    s = s.strip()[1:-1].strip()
    if not s:
        return []
    return [int(x.strip().replace("%nat", "")) for x in s.split(";")]


def run_case_shards(workdir: Path, name: str, header: str, case_type: str, check_fn: str,
                    terms: list[str], shard: int = 250, extra_q=(), timeout: int = 900,
                    jobs: int | None = None, weights: list[int] | None = None) -> tuple[list[int], list[int], list[str]]:
    """Write the cases in shards `name_k.v`, compile them in parallel, and return
    (indices failing correspondence, indices failing the spec oracle, error texts).
    `weights` (default 1 each): a shard holds consecutive cases of total weight <= `shard`."""
    files = []
    bounds, start, load = [], 0, 0
    for i in range(len(terms)):
        wgt = weights[i] if weights else 1
        if i > start and load + wgt > shard:
            bounds.append((start, i))
            start, load = i, 0
        load += wgt
    if terms:
        bounds.append((start, len(terms)))
    for n, (k, e) in enumerate(bounds):
        chunk = terms[k:e]
        f = workdir / f"{name}_{n}.v"
        body = ";\n".join(chunk)
        f.write_text(
            f"From A816 Require Import Base.Prelude.\n{header}\nOpen Scope Z_scope.\n"
            f"Definition cases : list ({case_type}) := [\n{body}\n].\n"
            f"Definition out := Eval vm_compute in (run_checks ({check_fn}) cases).\n"
            f"Print out.\n"
        )
        files.append((k, f))
    corr_bad: list[int] = []
    spec_bad: list[int] = []
    errors: list[str] = []

    def one(item):
        k, f = item
        rc, out = coqc(f, extra_q=extra_q, timeout=timeout)
        return k, f, rc, out

    with concurrent.futures.ThreadPoolExecutor(max_workers=jobs or NCPU) as ex:
        for k, f, rc, out in ex.map(one, files):
            m = _OUT_RE.search(out)
            if rc != 0 or not m:
                errors.append(f"{f.name}: rc={rc}\n{out[-2000:]}")
                continue
            corr_bad += [k + i for i in _parse_nat_list(m.group(1))]
            spec_bad += [k + i for i in _parse_nat_list(m.group(2))]
    return sorted(corr_bad), sorted(spec_bad), errors


def coq_eval(workdir: Path, name: str, header: str, exprs: list[str], extra_q=(), timeout: int = 600) -> str:
    """Evaluate expressions with vm_compute and return coqc's raw output (for replays)."""
    f = workdir / f"{name}.v"
    f.write_text("From A816 Require Import Base.Prelude.\n" + header + "\nOpen Scope Z_scope.\n" + "\n".join(f"Eval vm_compute in ({e})." for e in exprs) + "\n")
    rc, out = coqc(f, extra_q=extra_q, timeout=timeout)
    return out if rc == 0 else f"rc={rc}\n{out}"


# ----------------------------------------------------------------------------- misc

def new_workdir(tag: str) -> Path:
    WORK.mkdir(exist_ok=True)
    d = WORK / f"{tag}-{os.getpid()}-{int(time.time() * 1000) % 10**9}"
    d.mkdir(parents=True)
    return d


def rm_workdir(d: Path) -> None:
    shutil.rmtree(d, ignore_errors=True)


def short_hash(obj) -> str:
    return hashlib.sha256(json.dumps(obj, sort_keys=True, default=str).encode()).hexdigest()[:12]


def log(*a) -> None:
    print(*a, file=sys.stderr, flush=True)
