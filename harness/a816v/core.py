"""Shared machinery of the whole-assembly properties (C02, C03, C05, C07, C08, C09, C10):
case -> observation -> Coq `ccase` term (Oracle/Coreo.v), and the twin builders."""
from __future__ import annotations

import re

from . import asmdriver, progen
from . import common as C
from .obs import obs_term
from .props import asm

HEADER = "From A816 Require Import Oracle.Coreo Model.Ips.\n" + asm.TABLES
CASE_TYPE = "ccase"
CHECK = "check T"
MODEL_VIEW = "model_view T"
SHARD = 40
CASE_TIMEOUT = 30

KIND = {"CodePositionNode": 1, "RelocationAddressNode": 2, "IncludeIpsNode": 3}
DK = {"db": "D_db", "dw": "D_dw", "dl": "D_dl", "pointer": "D_pointer"}


def observe(case):
    if "earlier_src" in case:
        # another program assembled first in the same process (a library user, a test runner): the case's own
        # result is specified for the case alone, so whatever the earlier run left behind must not show
        asmdriver.assemble(case["earlier_src"], case.get("files"), rom=case.get("rom"))
    ob = asm.observe(case)
    if "twin_src" in case:
        tw = asmdriver.assemble(case["twin_src"], case.get("twin_files", case.get("files")), rom=case.get("rom"),
                                defines=case.get("defines"))
        ob["twin"] = tw
    return ob


def _item(it) -> str:
    if it[0] == "data":
        return f"(IData {DK[it[1]]} {C.zlist(it[2])})"
    if it[0] == "ascii":
        return f"(IAscii {C.cstr(it[1])})"
    return f"(IBin {C.cbytes(bytes(it[1]))})"


def spec_term(case, ob) -> str:
    if "driver_error" in ob or ob.get("timeout"):
        return "SNone"       # the harness could not observe this case: a correspondence alarm at most, never a failing input
    inner = _spec_term(case, ob)
    if case.get("must_assemble"):
        return f"(SAnd SAccept {inner})"
    return inner


def _spec_term(case, ob) -> str:
    sp = case.get("spec") or {"t": "none"}
    t = sp["t"]
    if t == "none":
        return "SNone"
    if t == "reject":
        return "SReject"
    if t == "data":
        tail = C.clist(sp.get("tail", []), lambda t: C.copt(t, C.z))
        return (f"(SData {C.cbool(sp['high'])} {C.z(sp['org'])} {C.z(sp['off'])} "
                f"{C.clist(sp['items'], _item)} {C.cstr(sp['end'])} {tail})")
    if t == "branch":
        return (f"(SBranch {C.cbool(sp['high'])} {C.z(sp['p'])} {C.z(sp['t_addr'])} {C.z(sp['op'])} "
                f"{C.nat(sp['skip'])} {C.cbool(sp['reject'])})")
    if t == "export":
        return f"(SExport {C.cstr(sp['name'])})"
    if t == "twin":
        tw = ob.get("twin") or {"timeout": True}
        return f"(STwin {obs_term(tw, asm.asmobs_term)} {C.cbool(sp.get('labels', False))})"
    tr = ob.get("trace")
    if not isinstance(tr, dict):     # no trace (or a driver failure, whose "trace" is a traceback text)
        return "SNone"
    if t == "trace":
        labels = [(r[0], r[2]) for r in tr["pass1"] if r[1] in ("LabelNode", "BinaryNode") and r[4] is not None]
        pass1 = [(r[0], r[2]) for r in tr["pass1"]]
        em = [(r[0], r[2], len(r[4]) if isinstance(r[4], list) else 0, KIND.get(r[1], 0)) for r in tr["emit"]]
        events = [(r[5], r[2]) for r in tr["pass1"] if r[1] in ("LabelNode", "BinaryNode") and len(r) > 5 and isinstance(r[5], str)]
        strace = ("(STrace " + C.clist(labels, lambda x: C.cpair(C.nat(x[0]), C.z(x[1]))) + " "
                  + C.clist(pass1, lambda x: C.cpair(C.nat(x[0]), C.z(x[1]))) + " "
                  + C.clist(em, lambda x: f"({C.nat(x[0])},{C.z(x[1])},{C.nat(x[2])},{C.z(x[3])})") + ")")
        return f"(SAnd {strace} (SLabelValues {C.clist(events, lambda x: C.cpair(C.cstr(x[0]), C.z(x[1])))}))"
    if t == "blocks":
        ns = [f"{{| tn_kind := {KIND.get(r[1], 0)}; tn_addr := {C.z(r[2])}; tn_pc := {C.z(r[3])}; "
              f"tn_bytes := {C.zlist(r[4] if isinstance(r[4], list) else [])}; "
              f"tn_ips := {C.clist(r[5] if len(r) > 5 else [], lambda b: C.cpair(C.zlist(b[0]), C.z(b[1])))} |}}" for r in tr["emit"]]
        if "ips_expected" in sp:
            exp = C.clist(sp["ips_expected"], lambda b: C.cpair(C.zlist(b[0]), C.z(b[1])))
            return (f"(SBlocksI {C.cbool(sp['high'])} {C.cbool(sp.get('user_map', False))} [{';'.join(ns)}] "
                    f"{C.z(tr['end_pc'])} {exp})")
        blocks = (f"(SBlocks {C.cbool(sp['high'])} {C.cbool(sp.get('user_map', False))} [{';'.join(ns)}] "
                  f"{C.z(tr['end_pc'])})")
        if sp.get("user_ranges"):
            # the bank ranges the program's own .map lines declare, in order: (first bank, last bank, window, writable)
            rs = C.clist(sp["user_ranges"], lambda r: f"{{| m_first := {C.z(r[0])}; m_last := {C.z(r[1])}; m_mask := {C.z(r[2])}; "
                                                      f"m_writable := {C.cbool(r[3])} |}}")
            return f"(SAnd {blocks} (SUserOffsets {rs} [{';'.join(ns)}]))"
        return blocks
    raise ValueError(t)


def coq_term(case, ob):
    if "syntax_error" in ob:
        impl, corr, asmcase = "(OErr EParse)", "false", asm.case_term(case, {})
    elif "driver_error" in ob or ob.get("timeout"):
        impl, corr, asmcase = "OTimeout", "true", asm.case_term(case, {})
    else:
        impl, corr, asmcase = obs_term(ob, asm.asmobs_term), "true", asm.case_term(case, ob)
    return (f"{{| cc_asm := {asmcase}; cc_impl := {impl}; cc_spec := {spec_term(case, ob)}; "
            f"cc_corr := {corr} |}}")


def nontrivial_key(case, ob):
    if "ok" in ob and any(b for b, _ in ob["ok"]["blocks"]):
        return C.short_hash([case["src"], case.get("twin_src"), case.get("rom")])
    if case.get("spec", {}).get("t") == "reject" and "err" in ob:
        return C.short_hash(case["src"])
    return None


def tags(case, ob):
    t = [f"kind:{case.get('kind')}", f"rom:{case.get('rom')}",
         "accepted" if "ok" in ob else ("syntax" if "syntax_error" in ob else f"rejected:{ob.get('err')}")]
    for k in (case.get("tree_kinds") or {}):
        t.append(f"stmt:{k}")
    return t


# ----------------------------------------------------------------------------------- twins

def map_children(s, f):
    """Rebuild statement `s` with `f` applied to each of its child statement lists."""
    k = s[0]
    if k == "block":
        return ("block", f(s[1]))
    if k == "scope":
        return ("scope", s[1], f(s[2]))
    if k == "macro":
        return ("macro", s[1], s[2], f(s[3]))
    if k == "if":
        return ("if", s[1], f(s[2]), f(s[3]) if s[3] is not None else None)
    if k == "for":
        return ("for", s[1], s[2], s[3], f(s[4]))
    if k == "apply":
        return ("apply", s[1], [("code", f(a[1])) if isinstance(a, tuple) else a for a in s[2]])
    return s


def map_strings(s, g):
    """Rebuild statement `s` with `g` applied to every identifier / expression text it carries (not children)."""
    k = s[0]
    if k in ("label", "op", "lookup", "orgexpr"):
        return (k, g(s[1]))
    if k == "data":
        return (k, s[1], [g(e) for e in s[2]])
    if k in ("assign", "symbol"):
        return (k, g(s[1]), g(s[2]))
    if k == "macro":
        return (k, g(s[1]), [g(p) for p in s[2]], s[3])
    if k == "apply":
        return (k, g(s[1]), [a if isinstance(a, tuple) else g(a) for a in s[2]])
    if k == "if":
        return (k, g(s[1]), s[2], s[3])
    if k == "for":
        return (k, g(s[1]), g(s[2]), g(s[3]), s[4])
    return s


def sub_ident(text: str, old: str, new: str) -> str:
    # a qualified reference `scope.old` is a use of `old` too
    return re.sub(rf"(?<![A-Za-z0-9_]){re.escape(old)}(?![A-Za-z0-9_])", new, text)


def mentions(text: str, name: str) -> bool:
    return re.search(rf"(?<![A-Za-z0-9_]){re.escape(name)}(?![A-Za-z0-9_])", text) is not None


def sub_tree(stmts, old, new):
    """Rename an identifier everywhere in a statement tree (definitions and uses)."""
    return [map_children(map_strings(s, lambda t: sub_ident(t, old, new)), lambda c: sub_tree(c, old, new))
            for s in stmts]


class Fresh:
    def __init__(self):
        self.n = 0

    def __call__(self, prefix):
        self.n += 1
        return f"{prefix}{self.n}"


def expand_lookups(stmts, pname, code):
    out = []
    for s in stmts:
        if s[0] == "lookup" and s[1] == pname:
            out += code
        else:
            out.append(map_children(s, lambda c: expand_lookups(c, pname, code)))
    return out


def inline_macros(stmts, macros=None, fresh=None, deferred_names=()):
    """Twin of C09: every application becomes `{ q1 := e1 ... qn := en  body[p := q] }` with fresh q
    (so that no argument is captured), code-block arguments spliced where the parameter is looked up.
    `=` instead of `:=` when the argument mentions a name in `deferred_names` (labels: not known at expansion)."""
    macros = macros if macros is not None else {}
    fresh = fresh or Fresh()
    out = []
    for s in stmts:
        k = s[0]
        if k == "macro":
            macros[s[1]] = (s[2], s[3])
            out.append(s)
        elif k == "apply" and s[1] in macros and len(s[2]) >= len(macros[s[1]][0]):
            params, body = macros[s[1]]
            pre = []
            for p, a in zip(params, s[2]):
                if isinstance(a, tuple):
                    body = expand_lookups(body, p, inline_macros(a[1], macros, fresh, deferred_names))
                else:
                    q = fresh("zq_")
                    body = sub_tree(body, p, q)
                    late = any(mentions(a, n) for n in deferred_names)
                    pre.append(("symbol" if late else "assign", q, a))
            out.append(("block", pre + inline_macros(body, macros, fresh, deferred_names)))
        else:
            out.append(map_children(s, lambda c: inline_macros(c, macros, fresh, deferred_names)))
    return out


IF_VALUES = {"0": False, "1": True, "2": True, "0x100": True, "undefined_name": False, "1 - 1": False, "0 + 1": True}


def _lit(text):
    try:
        return int(text, 0)
    except ValueError:
        return None


def unroll(stmts):
    """Twin of C10: `.if` with a literal condition replaced by the selected branch inline,
    `.for v := a, b` with literal bounds replaced by `{ v = k  body }` for k = a..b-1."""
    out = []
    for s in stmts:
        k = s[0]
        if k == "if" and s[1] in IF_VALUES:
            out += unroll(s[2] if IF_VALUES[s[1]] else (s[3] or []))
        elif k == "for" and _lit(s[2]) is not None and _lit(s[3]) is not None:
            for i in range(_lit(s[2]), _lit(s[3])):
                out.append(("block", [("symbol", s[1], str(i))] + unroll(s[4])))
        else:
            out.append(map_children(s, unroll))
    return out


def late_names(stmts, acc=None):
    """Names that have no value during code generation: labels, `=` symbols, loop variables."""
    acc = acc if acc is not None else []
    for s in stmts:
        if s[0] in ("label", "symbol", "for"):
            acc.append(s[1])
        map_children(s, lambda c: (late_names(c, acc), c)[1])
    return acc


def all_labels(stmts, acc=None):
    acc = acc if acc is not None else []
    for s in stmts:
        if s[0] == "label":
            acc.append(s[1])
        map_children(s, lambda c: (all_labels(c, acc), c)[1])
    return acc


def prog_case(rng, kind, rom=None, features=None, n_stmts=None, spec=None, trace=False):
    rom = rom if rom is not None else rng.choice(["low", "low", "low", "high", "low2"])
    g = progen.Gen(rng, rom=rom, features=features)
    tree = g.program(n_stmts)
    c = {"kind": kind, "rom": rom, "src": progen.render(tree) + "\n", "tree_kinds": progen.count_kinds(tree)}
    if g.files:
        c["files"] = dict(g.files)
    if spec:
        c["spec"] = spec
    if trace:
        c["trace"] = True
    return c, tree


def mark_must_assemble(cases, kinds):
    """Hand-written families whose every program is valid: the oracle also demands that they assemble (SAccept)."""
    for c in cases:
        if str(c.get("kind")).split(":")[0] in kinds:
            c["must_assemble"] = True
    return cases
