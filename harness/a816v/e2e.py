"""End-to-end cases (source text through every entry point) for C12, C14, C15, C16, C17, C19:
implementation drivers, observation canonicalisation and Coq term printing (Oracle/E2Eo.v)."""
from __future__ import annotations

import contextlib
import io
import logging
import os
import subprocess
import sys
from pathlib import Path

from . import asmdriver
from . import common as C
from .obs import exc_kind

HEADER = (
    "From A816 Require Import Oracle.E2Eo.\nFrom A816 Require Model.TableFile.\n"
    "Require Import Run.GenBuses Run.GenOpcodes Run.GenLexicon.\n"
    "Definition L : live := {| lv_low := Run.GenBuses.low_rom_bus; lv_high := Run.GenBuses.high_rom_bus; "
    "lv_busmap := Run.GenBuses.bus_mapping; lv_optable := Run.GenOpcodes.opcode_table; "
    "lv_prec := Run.GenOpcodes.operator_precedence; "
    "lv_lex := mk_lexicon Run.GenLexicon.mnemonics Run.GenLexicon.mnemonics_without_operand Run.GenLexicon.keywords |}."
)
CASE_TYPE = "e2ecase * e2espec * bool"
CHECK = "check L"
MODEL_VIEW = "model_view L"
SHARD = 40
CASE_TIMEOUT = 30
FNAME = "prog.s"
MAX_FILE = 100_000
ROM_CODE = {"low": "LowRom", "low2": "LowRom2", "high": "HighRom"}
# what the output path holds before a front end is run: writing a file replaces it, whatever it was
STALE_OUTPUT = b"PATCH" + bytes(range(256)) * 12 + b"EOF" + b"stale tail EOF"


# ----------------------------------------------------------------------------- observation

def _files_on_disk(case) -> dict:
    out = {}
    for name, content in (case.get("files") or {}).items():
        if isinstance(content, dict) and "tbl" in content:
            out[name] = "".join(f"{bytes(code).hex().upper()}={text}\n" for text, code in content["tbl"])
        elif isinstance(content, dict) and "tbl_text" in content:      # a .tbl file given as its text (noise lines included)
            out[name] = content["tbl_text"]
        else:
            out[name] = content if isinstance(content, str) else bytes(content)
    return out


def parse_error_string(err: str) -> dict:
    """The string assemble_string_with_emitter returns for a scan / parse error -> its fields."""
    lines = err.split("\n")
    if err.startswith("\n"):                      # Token.trace(): "\n{pos} {type}\n{line}\n{caret}"
        head = lines[1]
        pos = head.rsplit(" ", 1)[0]
        f, l, c = pos.rsplit(":", 2)
        return {"parse": [f, int(l), int(c)]}
    if len(lines) >= 3 and lines[-1].strip() == "^":
        head = "\n".join(lines[:-2])
        if " : " in head:
            pos, msg = head.split(" : ", 1)
            parts = pos.rsplit(":", 2)
            if len(parts) == 3:
                try:
                    return {"scan": [parts[0], int(parts[1]), int(parts[2]), msg, lines[-2]]}
                except ValueError:
                    pass
    return {"errother": err[:200]}


def node_error_site(e) -> list | None:
    fi = getattr(e, "file_info", None)
    if fi is None or fi.position is None:
        return None
    text = str(e)
    marker = '" at\n'
    i = text.rfind(marker)
    if i < 0:
        return None
    tail = text[i + len(marker):]
    pos, _, quoted = tail.partition(" ")
    f, _, l = pos.rpartition(":")
    try:
        return [f, int(l), quoted]
    except ValueError:
        return None


def observe_string_api(case, in_place: bool = False) -> dict:
    """assemble_string_with_emitter on the source text, files in a sandbox (in_place: in the current directory,
    whose files the caller has laid out)."""
    from a816.cpu.cpu_65c816 import RomType
    from a816.parse.nodes import NodeError
    from a816.program import Program
    logging.disable(logging.CRITICAL)
    with (contextlib.nullcontext() if in_place else asmdriver.sandbox(_files_on_disk(case))):
        program = Program()
        if case.get("rom"):
            program.resolver.rom_type = RomType[asmdriver.ROMS[case["rom"]]]
        for k, v in (case.get("defines") or {}).items():
            program.resolver.current_scope.add_symbol(k, v)
        w = asmdriver.StubWriter()
        try:
            with contextlib.redirect_stdout(io.StringIO()), contextlib.redirect_stderr(io.StringIO()):
                err = program.assemble_string_with_emitter(case["src"], case.get("fname", FNAME), w)
        except NodeError as e:
            return {"exc": "ENode", "site": node_error_site(e), "msg": str(e)[:300]}
        except Exception as e:
            if type(e).__name__ == "Timeout":
                raise
            return {"exc": exc_kind(e), "site": None, "msg": f"{type(e).__name__}: {e}"[:300]}
        if err is not None:
            return parse_error_string(err)
        return {"ok": {"blocks": [[list(b), a] for b, a in w.calls],
                       "labels": [[n, v] for n, v in program.resolver.get_all_labels()]}}


class _Capture(logging.Handler):
    def __init__(self):
        super().__init__(level=logging.DEBUG)
        self.messages = []

    def emit(self, record):
        self.messages.append(record.getMessage())


def observe_file_api(case) -> dict:
    """Program.assemble / assemble_as_patch on files; returns status, 'Success !' logged, output bytes, symbols."""
    from a816.program import Program
    logging.disable(logging.NOTSET)
    cap = _Capture()
    loggers = [logging.getLogger("x816"), logging.getLogger("a816")]
    for lg in loggers:
        lg.addHandler(cap)
        lg.setLevel(logging.DEBUG)
        lg.propagate = False
    files = _files_on_disk(case)
    files[case.get("fname", FNAME)] = case["src"]
    files.setdefault("out.bin", STALE_OUTPUT)      # the output path already holds a longer file from an earlier build
    out: dict
    try:
        with asmdriver.sandbox(files):
            program = Program()
            for k, v in (case.get("defines") or {}).items():
                program.resolver.current_scope.add_symbol(k, v)
            events = []
            from a816 import symbols as _sym
            orig_add_label = _sym.Scope.add_label

            def add_label_spy(self, label, value):
                events.append((self, label, value.logical_value))
                return orig_add_label(self, label, value)
            _sym.Scope.add_label = add_label_spy
            # which scopes are loop-iteration scopes: those the resolver makes through append_internal_scope (behaviour,
            # not the class name); without that method the label listing is not cross-checked at all
            internal_ids: set = set()
            orig_internal = getattr(_sym.Resolver, "append_internal_scope", None)
            if orig_internal is not None:
                def internal_spy(self, *a, **k):
                    r = orig_internal(self, *a, **k)
                    if self.scopes:
                        internal_ids.add(id(self.scopes[-1]))
                    return r
                _sym.Resolver.append_internal_scope = internal_spy
            try:
                with contextlib.redirect_stdout(io.StringIO()), contextlib.redirect_stderr(io.StringIO()):
                    if case.get("format", "ips") == "ips":
                        code = program.assemble_as_patch(case.get("fname", FNAME), Path("out.bin"), case.get("mapping"),
                                                         bool(case.get("copier")))
                    else:
                        code = program.assemble(case.get("fname", FNAME), Path("out.bin"), case.get("mapping"))
                data = Path("out.bin").read_bytes() if Path("out.bin").exists() else None
                out = {"ret": code, "announced": any("Success" in m for m in cap.messages), "log": "\n".join(cap.messages)[-20000:],
                       "file": list(data) if data is not None else None}
                if code == 0 and case.get("symfile"):
                    program.exports_symbol_file("out.sym")
                    out["sym"] = parse_symfile(Path("out.sym").read_text())
                    # the label definitions actually made, grouped by scope in creation order, loop iterations left out;
                    # a name defined twice in one scope keeps its place and takes the last value
                    scopes = program.resolver.scopes
                    per_scope: dict[int, dict[str, int]] = {}
                    for sc, name, value in events:
                        if id(sc) in internal_ids:      # a loop iteration's scope (made by append_internal_scope)
                            continue
                        per_scope.setdefault(scopes.index(sc), {})[name] = value
                    if orig_internal is not None:
                        out["labeldefs"] = [[(v >> 16) & 0xFF, v & 0xFFFF, n] for i in sorted(per_scope) for n, v in per_scope[i].items()]
            except Exception as e:
                if type(e).__name__ == "Timeout":
                    raise
                out = {"raise": exc_kind(e), "msg": f"{type(e).__name__}: {e}"[:200],
                       "announced": any("Success" in m for m in cap.messages)}
    finally:
        try:
            _sym.Scope.add_label = orig_add_label
            if orig_internal is not None:
                _sym.Resolver.append_internal_scope = orig_internal
        except NameError:
            pass
        for lg in loggers:
            lg.removeHandler(cap)
        logging.disable(logging.CRITICAL)
    return out


def parse_symfile(text: str):
    lines = text.split("\n")
    if lines[0] != "[labels]":
        return None
    out = []
    for ln in lines[1:]:
        if not ln:
            continue
        addr, _, name = ln.partition(" ")
        # f"{bank:2x}:{offset:4x} {name}": space padded hex, so split on the colon positions
        bank, off = ln[:2], ln[3:7]
        name = ln[8:]
        out.append([int(bank.strip() or "0", 16), int(off.strip() or "0", 16), name])
    return out


def observe_cli(case) -> dict:
    """python -m a816.cli in a subprocess: exit status, 'Success !' in the log, output file."""
    files = _files_on_disk(case)
    files[case.get("fname", FNAME)] = case["src"]
    files.setdefault("out.bin", STALE_OUTPUT)
    with asmdriver.sandbox(files) as d:
        cmd = [sys.executable, "-m", "a816.cli", "-o", "out.bin", "-f", case.get("format", "ips")]
        if case.get("mapping"):
            cmd += ["-m", case["mapping"]]
        if case.get("copier"):
            cmd.append("--copier-header")
        if case.get("dump_symbols"):
            cmd.append("--dump-symbols")      # prints the symbol table between the passes; changes nothing else
        if case.get("cli_defines"):
            cmd += ["-D"] + [f"{k}={v}" for k, v in case["cli_defines"].items()]
            cmd.append("--")
        cmd.append(case.get("fname", FNAME))
        env = dict(os.environ, PYTHONPATH=str(C.REPO), PYTHONDONTWRITEBYTECODE="1")
        try:
            p = subprocess.run(cmd, cwd=d, env=env, capture_output=True, text=True, timeout=CASE_TIMEOUT - 10)
        except subprocess.TimeoutExpired:
            return {"timeout": True}
        data = Path(d, "out.bin").read_bytes() if Path(d, "out.bin").exists() else None
        return {"exit": p.returncode, "announced": "Success" in (p.stdout + p.stderr),
                "file": list(data) if data is not None else None, "stderr": (p.stderr or "")[-300:],
                "stderr_full": ((p.stderr or "") + "\n" + (p.stdout or ""))[-20000:]}


def observe(case):
    ob = {"text": observe_string_api(case)}
    if case.get("api"):
        ob["api"] = observe_file_api(case)
    if case.get("cli"):
        ob["cli"] = observe_cli(case)
    if "twin" in case:
        ob["twin"] = observe_string_api(case["twin"])
    return ob


# ----------------------------------------------------------------------------- Coq terms

def e2eobs_term(o) -> str:
    if o is None or o.get("timeout"):
        return "ETimeout"
    if "ok" in o:
        return f"(EOk {asm_obs(o['ok'])})"
    if "scan" in o:
        f, l, c, msg, q = o["scan"]
        return f"(EScanErr {C.cstr(f)} {C.z(l)} {C.z(c)} {C.cstr(msg)} {C.cstr(q)})"
    if "parse" in o:
        f, l, c = o["parse"]
        return f"(EParseErr {C.cstr(f)} {C.z(l)} {C.z(c)})"
    if "errother" in o:
        return "EErrOther"
    if "exc" in o:
        s = o.get("site")
        site = "None" if not s else f"(Some ({C.cstr(s[0])}, {C.z(s[1])}, {C.cstr(s[2])}))"
        return f"(EExc {o['exc']} {site})"
    return "ETimeout"


def asm_obs(v) -> str:
    blocks = C.clist(v["blocks"], lambda ba: C.cpair(C.cbytes(bytes(ba[0])), C.z(ba[1])))
    labels = C.clist(v["labels"], lambda nv: C.cpair(C.cstr(nv[0]), C.z(nv[1])))
    return C.cpair(blocks, labels)


def front_term(o) -> str:
    if o is None:
        return "FNone"
    if o.get("timeout"):
        # a front end that did not come back: an observation no model result agrees with and every oracle objects to
        # (status 99 together with a success message; see not_hung in Oracle/E2Eo.v)
        return "(FExit 99 true None)"
    # very large flat images (a block high up in a 4 MiB ROM) are not shipped: only the status is compared then
    f = "None" if o.get("file") is None or len(o["file"]) > MAX_FILE else f"(Some {C.cbytes(bytes(o['file']))})"
    if "ret" in o:
        # a file API that falls off its end returns None, which sys.exit() turns into status 0: a zero status
        ret = o["ret"] if isinstance(o["ret"], int) else 0
        return f"(FReturn {C.z(ret)} {C.cbool(o['announced'])} {f})"
    if "raise" in o:
        return f"(FRaise {o['raise']})"
    return f"(FExit {C.z(o['exit'])} {C.cbool(o['announced'])} {f})"


def files_term(case) -> str:
    text, bins, tbls = [], [], []
    for name, content in (case.get("files") or {}).items():
        if isinstance(content, dict) and "tbl" in content:
            tbls.append(C.cpair(C.cstr(name), C.clist(content["tbl"], lambda tc: f"({C.cstr(tc[0])}, {C.cbytes(bytes(tc[1]))}, None)")))
        elif isinstance(content, dict) and "tbl_text" in content:
            # loaded by the model of script.Table's file reader (only texts that load are generated)
            tbls.append(C.cpair(C.cstr(name), "(match A816.Model.TableFile.entries_of_text (A816.Model.TableFile.universal_newlines "
                                              f"{C.cstr(content['tbl_text'])}) with Ok es => es | _ => [] end)"))
        elif isinstance(content, str):
            text.append(C.cpair(C.cstr(name), C.cstr(content)))
        else:
            bins.append(C.cpair(C.cstr(name), C.cbytes(bytes(content))))
    return (f"{{| sf_text := [{';'.join(text)}]; sf_bin := [{';'.join(bins)}]; sf_tbl := [{';'.join(tbls)}] |}}")


def config_term(case) -> str:
    rom = case.get("rom")
    defs = C.clist(list((case.get("defines") or {}).items()), lambda kv: C.cpair(C.cstr(kv[0]), C.z(kv[1])))
    return f"{{| cf_rom := {C.copt(rom, lambda r: ROM_CODE[r])}; cf_defines := {defs} |}}"


def spec_term(case, ob) -> str:
    sp = case.get("spec") or {"t": "none"}
    t = sp["t"]
    if t == "none":
        return "XNone"
    if t == "c12":
        # flat images too large to ship to Coq (a block high up in the ROM) are compared here with the image of the
        # in-memory blocks, by the same rule as Oracle/E2Eo.v spec_image (later writes win, gaps are zero bytes)
        big_ok = []
        mem = (ob.get("text") or {}).get("ok")
        if mem is not None and case.get("format") == "sfc":
            img = bytearray()
            for data, addr in mem["blocks"]:
                if data and addr >= 0:
                    if len(img) < addr + len(data):
                        img.extend(bytes(addr + len(data) - len(img)))
                    img[addr:addr + len(data)] = bytes(data)
            for fe in ("api", "cli"):
                f = (ob.get(fe) or {}).get("file")
                if f is not None and len(f) > MAX_FILE:
                    big_ok.append(bytes(f) == bytes(img))
        return f"(XAnd XC12 (XFrontSays {C.cbool(all(big_ok))}))" if big_ok else "XC12"
    if t == "c14":
        return f"(XC14 {C.cbool(sp['must_fail'])})"
    if t == "c15":
        return "XC15"
    if t == "c17":
        col = "None" if sp.get("col") is None else f"(Some {C.z(sp['col'])})"
        x17 = f"(XC17 {C.cstr(sp['file'])} {C.z(sp['line'])} {col} {C.cstr(sp['text'])})"
        # the front ends that were run report the same place in what they log / print ("file:line" followed by ":col"
        # or a blank, then the quoted line on a line of its own)
        import re as _re
        where = _re.compile(_re.escape(f"{sp['file']}:{sp['line']}") + (_re.escape(f":{sp['col']}") if sp.get("col") is not None else "") + r"(?![0-9:])")
        seen = []
        if ob.get("api") is not None and not ob["api"].get("timeout"):
            seen.append(bool(where.search(ob["api"].get("log") or "")) and sp["text"].strip() in (ob["api"].get("log") or ""))
        if ob.get("cli") is not None and not ob["cli"].get("timeout"):
            seen.append(bool(where.search(ob["cli"].get("stderr_full") or "")))
        return f"(XAnd {x17} (XFrontSays {C.cbool(all(seen))}))"
    if t == "twin":
        return f"(XTwin {e2eobs_term(ob.get('twin'))} {C.cbool(sp.get('labels', True))})"
    if t == "twin-class":
        return f"(XTwinErrClass {e2eobs_term(ob.get('twin'))})"
    raise ValueError(t)


def coq_term(case, ob):
    if not isinstance(ob, dict) or "text" not in ob:
        impl = "ETimeout"
        ob = {}
    else:
        impl = e2eobs_term(ob["text"])
    sym = "None"
    api = ob.get("api")
    if api and api.get("sym") is not None:
        sym = "(Some " + C.clist(api["sym"], lambda x: f"({C.z(x[0])}, {C.z(x[1])}, {C.cstr(x[2])})") + ")"
    defs = "None"
    if api and api.get("labeldefs") is not None:
        defs = "(Some " + C.clist(api["labeldefs"], lambda x: f"({C.z(x[0])}, {C.z(x[1])}, {C.cstr(x[2])})") + ")"
    clidefs = "None"
    if case.get("cli") and case.get("cli_defines"):
        clidefs = "(Some " + C.clist(list(case["cli_defines"].items()), lambda kv: C.cpair(C.cstr(kv[0]), C.cstr(kv[1]))) + ")"
    fmt = "FIps" if case.get("format", "ips") == "ips" else "FSfc"
    term = (f"{{| ec_files := {files_term(case)}; ec_config := {config_term(case)}; "
            f"ec_name := {C.cstr(case.get('fname', FNAME))}; ec_src := {C.cstr(case['src'])}; ec_impl := {impl}; "
            f"ec_format := {fmt}; ec_copier := {C.cbool(bool(case.get('copier')))}; "
            f"ec_api := {front_term(api)}; ec_cli := {front_term(ob.get('cli'))}; ec_symfile := {sym}; "
            f"ec_cli_defines := {clidefs}; ec_labeldefs := {defs} |}}")
    return f"({term}, {spec_term(case, ob)}, {C.cbool(case.get('corr', True))})"


def nontrivial_key(case, ob):
    t = ob.get("text", {}) if isinstance(ob, dict) else {}
    if "ok" in t and not any(b for b, _ in t["ok"]["blocks"]) and not case.get("count_empty"):
        return None
    return C.short_hash([case["src"], case.get("files") and sorted(case["files"]), case.get("rom"), case.get("format"),
                         case.get("copier"), case.get("mapping"), case.get("defines")])


def tags(case, ob):
    t = ob.get("text", {}) if isinstance(ob, dict) else {}
    res = "accepted" if "ok" in t else ("scan-error" if "scan" in t else "parse-error" if "parse" in t
                                        else f"exc:{t.get('exc')}" if "exc" in t else "other")
    return [f"kind:{case.get('kind')}", res]
