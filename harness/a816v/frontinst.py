"""Per-run instantiation shared by the properties that list the front-end round trip (Properties/FrontEnd.v): the side
condition `lexicon_rt` holds for the live lexicon regenerated from /repo, so the round trip applies to THIS tree's scanner tables."""


def instantiate(gen_q, tag: str):
    lx = "(mk_lexicon Run.GenLexicon.mnemonics Run.GenLexicon.mnemonics_without_operand Run.GenLexicon.keywords)"
    text = (
        "From A816 Require Import Model.Scanner Proofs.RoundTripParse Proofs.RoundTripProgram.\n"
        "Require Import Run.GenLexicon.\n"
        f"Definition live_lexicon_{tag} := {lx}.\n"
        f"Lemma live_lexicon_{tag}_rt : lexicon_rt live_lexicon_{tag} = true.\nProof. vm_compute. reflexivity. Qed.\n"
        f"Definition Front_roundtrip_live_{tag} := fun file inc incfuel prog => "
        f"Front_roundtrip live_lexicon_{tag} file inc incfuel prog live_lexicon_{tag}_rt.\n"
    )
    if tag == "c08":        # the property that lists the extended class (Properties/FrontEndExt.v)
        text += ("From A816 Require Proofs.RoundTripExtProgram.\nFrom A816 Require Import Model.Parser.\n"
                 f"Lemma live_lexicon_{tag}_rt_ext : RoundTripExtProgram.lexicon_rt live_lexicon_{tag} = true.\nProof. vm_compute. reflexivity. Qed.\n"
                 f"Lemma live_lexicon_{tag}_include : mem_str k_include (lx_keywords live_lexicon_{tag}) = true.\nProof. vm_compute. reflexivity. Qed.\n")
        return text, [f"Front_roundtrip_live_{tag}", f"live_lexicon_{tag}_rt_ext", f"live_lexicon_{tag}_include"]
    return text, [f"Front_roundtrip_live_{tag}"]
