"""Translator: live data objects of /repo -> Coq terms (Gen*.v), regenerated on every run.

Fail-closed: any object whose shape is not exactly the expected one raises, which the
runner reports as a broken tie.  The files are written to the run's private work
directory and mapped as the logical path `Run`.
"""
from __future__ import annotations

from pathlib import Path

from . import common as C

FILES = ["GenBuses.v", "GenOpcodes.v", "GenLexicon.v"]


class Shape(Exception):
    pass


def _expect(cond, msg):
    if not cond:
        raise Shape(msg)


# ----------------------------------------------------------------------------- buses

def bus_term(bus) -> str:
    """A built-in bus as the model's [bus]: which mapping owns each bank is PROBED through the public
    get_mapping_for_bank(bank) for banks 0..255 (how the class stores its lookup is its own business),
    the mapping parameters are read from the Mapping objects it returns."""
    from a816.cpu.mapping import Bus, Mapping
    _expect(type(bus) is Bus, f"bus object is {type(bus)}")
    _expect(isinstance(bus.mappings, dict), "bus.mappings is not a dict")
    _expect(bus.editable in (True, False), "bus.editable not a bool")
    names = {}
    for ident, m in bus.mappings.items():
        _expect(isinstance(ident, str) and type(m) is Mapping, "mappings entry shape")
        names[id(m)] = ident
    ranges = []
    for bank in range(0, 256):
        try:
            m = bus.get_mapping_for_bank(bank)
        except KeyError:
            continue
        _expect(type(m) is Mapping and id(m) in names, "get_mapping_for_bank returned an unknown mapping")
        ident = names[id(m)]
        if ranges and ranges[-1][2] == ident and ranges[-1][1] == bank - 1:
            ranges[-1][1] = bank
        else:
            ranges.append([bank, bank, ident])
    for probe in (-1, 256, 300):
        try:
            bus.get_mapping_for_bank(probe)
            raise Shape(f"bank {probe} is mapped: the model assumes banks 0..255")
        except KeyError:
            pass
    maps = []
    for ident, m in bus.mappings.items():
        _expect(isinstance(m.mask, int) and isinstance(m.bank_range, tuple) and len(m.bank_range) == 2, "mapping fields")
        _expect(m.writable in (True, False), "writable not a bool")
        # the model's m_writable means `self.writable is not False`
        maps.append(f"({C.cstr(ident)}, {{| m_first := {C.z(m.bank_range[0])}; m_last := {C.z(m.bank_range[1])}; "
                    f"m_mask := {C.z(m.mask)}; m_writable := {C.cbool(m.writable is not False)} |}})")
    rs = ";".join(f"({C.z(a)},{C.z(b)},{C.cstr(i)})" for a, b, i in ranges)
    return (f"{{| b_ranges := [{rs}]; b_maps := [{';'.join(maps)}]; "
            f"b_editable := {C.cbool(bus.editable is True)} |}}")


def gen_buses() -> str:
    from a816 import symbols
    from a816.cpu.cpu_65c816 import RomType
    _expect([r.name for r in RomType] == ["low_rom", "low_rom_2", "high_rom"], "RomType members")
    bm = symbols.BUS_MAPPING
    _expect(isinstance(bm, dict), "BUS_MAPPING not a dict")
    which = []
    for rt in RomType:
        if rt in bm:
            b = bm[rt]
            _expect(b is symbols.low_rom_bus or b is symbols.high_rom_bus, "BUS_MAPPING value is not a built-in bus")
            which.append(f"({rt.value}, {'true' if b is symbols.low_rom_bus else 'false'})")
    return (
        "From A816 Require Import Model.Bus.\nOpen Scope Z_scope.\n"
        f"Definition low_rom_bus : bus := {bus_term(symbols.low_rom_bus)}.\n"
        f"Definition high_rom_bus : bus := {bus_term(symbols.high_rom_bus)}.\n"
        "(* BUS_MAPPING: RomType value -> (true = low_rom_bus, false = high_rom_bus) *)\n"
        f"Definition bus_mapping : list (Z * bool) := [{';'.join(which)}].\n"
    )


# ----------------------------------------------------------------------------- opcodes

def gen_opcodes() -> str:
    from a816.cpu import cpu_65c816 as cpu
    from a816.parse.ast.nodes import index_map
    from a816.parse.ast.expression import OPERATOR_PRECEDENCE
    table = cpu.snes_opcode_table
    _expect(isinstance(table, dict), "snes_opcode_table not a dict")
    modes = list(cpu.AddressingMode)
    _expect([m.value for m in modes] == list(range(10)), "AddressingMode values")
    mode_names = ["M_none", "M_immediate", "M_direct", "M_direct_indexed", "M_indirect", "M_indirect_indexed",
                  "M_indirect_long", "M_indirect_indexed_long", "M_dp_or_sr_indirect_indexed",
                  "M_stack_indexed_indirect_indexed"]
    _expect([m.name for m in modes] == [n[2:] for n in mode_names], "AddressingMode names")

    def emitter(e) -> str:
        if type(e) is cpu.OpcodeWithoutOperand:
            _expect(isinstance(e.opcode, int), "opcode byte")
            return f"(EmNoOperand {e.opcode})"
        if type(e) is cpu.RelativeJumpOpcode:
            _expect(isinstance(e.opcode, int), "opcode byte")
            return f"(EmRel {e.opcode})"
        if type(e) is cpu.Opcode:
            _expect(isinstance(e.opcode_def, list), "opcode_def")
            _expect(e.size_opcode_map == {"b": 0, "w": 1, "l": 2}, "size_opcode_map")
            defs = []
            for d in e.opcode_def:
                _expect(d is None or isinstance(d, int), "opcode_def entry")
                defs.append("None" if d is None else f"(Some {d})")
            return f"(EmPlain [{';'.join(defs)}])"
        raise Shape(f"unknown emitter class {type(e)}")

    rows = []
    for mn, by_mode in table.items():
        _expect(isinstance(mn, str) and isinstance(by_mode, dict), "table row")
        ms = []
        for mode, d in by_mode.items():
            _expect(isinstance(mode, cpu.AddressingMode), "mode key")
            if isinstance(d, dict):
                items = []
                for idx, e in d.items():
                    _expect(isinstance(idx, str), "index key")
                    items.append(f"({C.cstr(idx)},{emitter(e)})")
                ms.append(f"({mode_names[mode.value]}, ByIndex [{';'.join(items)}])")
            else:
                ms.append(f"({mode_names[mode.value]}, Single {emitter(d)})")
        rows.append(f"({C.cstr(mn)}, [{';'.join(ms)}])")
    _expect(isinstance(index_map, dict), "index_map")
    im = ";".join(f"({mode_names[k.value]},{mode_names[v.value]})" for k, v in index_map.items())
    _expect(isinstance(OPERATOR_PRECEDENCE, dict), "OPERATOR_PRECEDENCE")
    prec = ";".join(f"({C.cstr(k)},{C.z(v)})" for k, v in OPERATOR_PRECEDENCE.items())
    for k, v in OPERATOR_PRECEDENCE.items():
        _expect(isinstance(k, str) and isinstance(v, int), "precedence entry")
    return (
        "From A816 Require Import Model.Opcode.\nOpen Scope Z_scope.\n"
        f"Definition opcode_table : optable := [\n" + ";\n".join(rows) + "\n].\n"
        f"Definition index_map : list (amode * amode) := [{im}].\n"
        f"Definition operator_precedence : list (str * Z) := [{prec}].\n"
    )


def _names(obj, what: str) -> list[str]:
    """A collection of names used for membership tests only (list, tuple, set, frozenset, dict keys ...): its sorted
    members.  Anything else is refused (fail closed)."""
    _expect(isinstance(obj, (list, tuple, set, frozenset)) or hasattr(obj, "keys") or type(obj).__name__ == "dict_keys", what)
    names = sorted(set(obj))
    for k in names:
        _expect(isinstance(k, str), what + " entry")
    return names


def gen_lexicon() -> str:
    from a816.cpu import cpu_65c816 as cpu
    from a816.parse import scanner_states as ss
    kws = _names(ss.KEYWORDS, "KEYWORDS")
    # the scanner accepts as a mnemonic what the opcode table lists (a module-level alias of its keys may or may not exist)
    mns = _names(getattr(ss, "opcodes", None) if getattr(ss, "opcodes", None) is not None else cpu.snes_opcode_table, "mnemonics")
    naked = _names(ss.opcodes_without_operand, "opcodes_without_operand")
    return (
        "From A816 Require Import Base.Prelude.\nOpen Scope Z_scope.\n"
        f"Definition keywords : list str := {C.clist(kws, C.cstr)}.\n"
        f"Definition mnemonics : list str := {C.clist(mns, C.cstr)}.\n"
        f"Definition mnemonics_without_operand : list str := {C.clist(naked, C.cstr)}.\n"
    )


def generate(workdir: Path) -> None:
    (workdir / "GenBuses.v").write_text(gen_buses())
    (workdir / "GenOpcodes.v").write_text(gen_opcodes())
    (workdir / "GenLexicon.v").write_text(gen_lexicon())
