"""Observation helpers: run a call on the implementation and canonicalise the outcome."""
from __future__ import annotations

import struct


def exc_kind(e: BaseException) -> str:
    """Python exception -> the model's [errk] constructor."""
    from a816.exceptions import SymbolNotDefined
    from a816.parse.errors import ParserSyntaxError, ScannerException
    from a816.parse.nodes import NodeError
    if isinstance(e, NodeError):
        return "ENode"
    if isinstance(e, SymbolNotDefined):
        return "ESymbol"
    if isinstance(e, ScannerException):
        return "EScan"
    if isinstance(e, ParserSyntaxError):
        return "EParse"
    if isinstance(e, KeyError):
        return "EKey"
    if isinstance(e, IndexError):
        return "EIndex"
    if isinstance(e, struct.error):
        return "EStruct"
    if isinstance(e, RecursionError):
        return "ERecursion"
    if isinstance(e, RuntimeError):
        return "ERuntime"
    if isinstance(e, ValueError):
        return "EValue"
    if isinstance(e, AssertionError):
        return "EAssert"
    if isinstance(e, OSError):
        return "EFile"
    if isinstance(e, TypeError):
        return "EType"
    return "EOther"


def observe_call(f):
    """{'ok': value} | {'err': kind, 'msg': text}.  Timeouts are raised through (the runner
    turns them into {'timeout': True})."""
    try:
        return {"ok": f()}
    except Exception as e:
        if type(e).__name__ == "Timeout":
            raise
        return {"err": exc_kind(e), "msg": f"{type(e).__name__}: {e}"[:300]}


def obs_term(ob, f) -> str:
    if "ok" in ob:
        return f"(OOk {f(ob['ok'])})"
    if "err" in ob:
        return f"(OErr {ob['err']})"
    if ob.get("timeout"):
        return "OTimeout"
    # the driver itself failed: make the correspondence bit false
    return "OTimeout"
