"""Program generator shared by the whole-assembly properties (DESIGN Appendix C).

A program is a tree of statements (tuples) so that twins (inlined, unrolled, renamed, re-laid-out)
can be computed structurally; `render` prints it.  Every random draw goes through the rng given.

Statement forms:
  ("org", v) ("reloc", v) ("label", name) ("op", text) ("data", kind, [exprs]) ("ascii", text)
  ("assign", name, expr) ("symbol", name, expr) ("block", [stmts]) ("scope", name, [stmts])
  ("macro", name, [params], [stmts]) ("apply", name, [args])   arg = expr text | ("code", [stmts])
  ("lookup", name) ("if", cond, [then], [else] | None) ("for", var, lo, hi, [stmts])
  ("incbin", path) ("include", path) ("map", text) ("comment", text) ("raw", text)
  ("include_ips", path, delta_expr) ("table", path) ("text", text)
"""
from __future__ import annotations

NAMES = ["foo", "bar", "baz", "qux", "tmp", "cnt", "ptr", "val", "dst", "src2", "n1", "n2", "zed", "wiz",
         "alpha", "beta", "gamma", "delta", "kappa", "lam", "mu", "nu", "xi", "omi", "rho", "tau", "phi", "chi",
         "aa", "bb", "cc2", "dd", "ee", "ff", "gg", "hh", "ii", "jj", "kk", "ll", "mm", "nn", "oo", "pp", "qq"]


def _table():
    from a816.cpu import cpu_65c816 as cpu
    return cpu, cpu.snes_opcode_table


_TEMPLATES = None


def templates():
    """[(mnemonic, syntax with {E}, [widths allowed] | None for no operand | 'rel')] from the live table."""
    global _TEMPLATES
    if _TEMPLATES is not None:
        return _TEMPLATES
    cpu, table = _table()
    M = cpu.AddressingMode
    syn = {
        M.immediate: {None: "#{E}"}, M.direct: {None: "{E}"},
        M.direct_indexed: {"x": "{E},x", "y": "{E},y", "s": "{E},s"},
        M.indirect: {None: "({E})"}, M.indirect_indexed: {"y": "({E}),y"},
        M.indirect_long: {None: "[{E}]"}, M.indirect_indexed_long: {"y": "[{E}],y"},
        M.dp_or_sr_indirect_indexed: {"x": "({E},x)"},
        M.stack_indexed_indirect_indexed: {"y": "({E},s),y"},
    }
    out = []
    for mn, modes in table.items():
        for mode, d in modes.items():
            entries = d.items() if isinstance(d, dict) else [(None, d)]
            for idx, e in entries:
                if mode is M.none:
                    if type(e) is cpu.OpcodeWithoutOperand:
                        out.append((mn, None, None))
                    continue
                if type(e) is cpu.RelativeJumpOpcode:
                    out.append((mn, "{E}", "rel"))
                    continue
                if type(e) is not cpu.Opcode:
                    continue
                s = syn.get(mode, {}).get(idx)
                if s is None:
                    continue
                widths = [w for w, b in zip("bwl", e.opcode_def) if b is not None]
                if widths:
                    out.append((mn, s, widths))
    _TEMPLATES = out
    return out


WIDTH_RANGE = {"b": (0, 0xFF), "w": (0x100, 0xFFFF), "l": (0x10000, 0xFFFFFF)}
BOUNDARY = {"b": [0, 1, 0x7F, 0x80, 0xFF], "w": [0x100, 0x7FFF, 0x8000, 0xFFFF], "l": [0x10000, 0x7FFFFF, 0xFFFFFF]}


class Gen:
    def __init__(self, rng, rom="low", features=None, max_depth=4):
        self.rng = rng
        self.rom = rom
        self.features = features or {"blocks", "scopes", "macros", "if", "for", "reloc", "data", "ascii", "symbols"}
        self.max_depth = max_depth
        self.counter = 0
        self.macros: list[tuple[str, list[str], bool]] = []   # (name, params, takes_code)
        self.used_names: set[str] = set()
        self.files: dict = {}                                 # feature "files": path -> bytes (list) / text (str)

    # ------------------------------------------------------------------ names / literals
    def fresh(self, prefix="") -> str:
        self.counter += 1
        base = self.rng.choice(NAMES)
        return f"{prefix}{base}{self.counter}"

    def lit(self, v: int) -> str:
        if v < 0:
            return "-" + self.lit(-v)
        r = self.rng.random()
        if r < 0.5:
            h = f"{v:x}"
            if self.rng.random() < 0.3:
                h = h.upper()
            return "0x" + h
        if r < 0.9:
            return str(v)
        return "0b" + bin(v)[2:]

    def origin(self) -> int:
        r = self.rng
        if self.rom == "high":
            bank = r.choice([0x40, 0x41, 0x7D, 0xC0, 0xC1, 0xFE, 0xFF])
            off = r.choice([0, 0x10, 0x8000, 0xFF00, r.randrange(0, 0xFF00)])
        else:
            bank = r.choice([0x00, 0x01, 0x02, 0x3F, 0x6E, 0x80, 0x81, 0xCE] if self.rom == "low" else [0x80, 0x81, 0xCE])
            off = r.choice([0x8000, 0x8010, 0xFF00, r.randrange(0x8000, 0xFF00)])
        return (bank << 16) | off

    # ------------------------------------------------------------------ expressions
    def expr(self, env, width=None, allow_forward=False, directive=False) -> str:
        """An expression over literals and visible names.  `width` forces the magnitude class of the value
        when the names used are constants (used for width-inferred operands)."""
        r = self.rng
        consts = [(n, v) for n, v in env["consts"].items()]
        if width is not None:
            lo, hi = WIDTH_RANGE[width]
            fit = [(n, v) for n, v in consts if lo <= v <= hi]
            if fit and r.random() < 0.35:
                return r.choice(fit)[0]
            v = r.choice(BOUNDARY[width] + [r.randrange(lo, hi + 1)])
            if r.random() < 0.2 and v > 1 and not directive:
                a = r.randrange(0, v)
                return f"{self.lit(a)} + {self.lit(v - a)}" if r.random() < 0.5 else f"{self.lit(a)}+{self.lit(v - a)}"
            return self.lit(v)
        atoms = []
        if consts:
            atoms += [n for n, _ in consts]
        atoms += list(env["labels_back"])
        if allow_forward:
            atoms += list(env["labels_fwd"]) + list(env.get("late", []))
        def atom():
            if atoms and r.random() < 0.6:
                return r.choice(atoms)
            return self.lit(r.choice([0, 1, 2, 0x10, 0xFF, 0x100, 0x1234, 0xFFFF, 0x10000, 0x7E0000]))
        k = r.random()
        if k < 0.55:
            return atom()
        ops = ["+", "-", "&", "<<", ">>"] if directive else ["+", "-", "*", "&", "|", "<<", ">>"]
        op = r.choice(ops)
        a = atom()
        b = self.lit(r.choice([0, 1, 2, 3, 8, 16])) if op in ("<<", ">>") else atom()
        sp = r.choice(["", " "])
        e = f"{a}{sp}{op}{sp}{b}"
        if k > 0.9:
            e = f"({e}){sp}{r.choice(['+', '-'])}{sp}{atom()}"
        return e

    # ------------------------------------------------------------------ statements
    def instruction(self, env) -> tuple:
        r = self.rng
        mn, syn, widths = r.choice(templates())
        case = r.random()
        m = mn.upper() if case < 0.1 else mn
        if syn is None:
            return ("op", m)
        if widths == "rel":
            targets = list(env["labels_back"][-3:]) + list(env["labels_fwd"][:2])
            local = [t for t in targets if t in env["local_labels"]]
            if not local:
                return ("op", "nop")
            return ("op", f"{m} {r.choice(local)}")
        w = r.choice(widths)
        if r.random() < 0.5:
            # explicit suffix: any expression (forward labels allowed: the width does not depend on the value)
            e = self.expr(env, allow_forward=True) if r.random() < 0.5 else self.expr(env, width=r.choice("bw" if w != "l" else "bwl"))
            sfx = "." + (w.upper() if r.random() < 0.1 else w)
            return ("op", f"{m}{sfx} " + syn.replace("{E}", e))
        e = self.expr(env, width=w)
        if syn.startswith("({E}") and e.startswith("("):
            e = "0x10"
        return ("op", f"{m} " + syn.replace("{E}", e))

    def data(self, env) -> tuple:
        r = self.rng
        kind = r.choice(["db", "dw", "dl", "pointer"])
        n = r.choice([1, 1, 2, 3, 5])
        return ("data", kind, [self.expr(env, allow_forward=True, directive=True) for _ in range(n)])

    def body(self, env, depth, n_stmts, top=False) -> list:
        r = self.rng
        # labels that will be defined in this block, at random positions
        n_labels = r.choice([0, 1, 1, 2, 3]) if n_stmts > 1 else r.choice([0, 1])
        names = []
        for _ in range(n_labels):
            if env["reuse_labels"] and r.random() < 0.35:
                names.append(r.choice(env["reuse_labels"]))
            else:
                names.append(self.fresh("l_"))
        names = list(dict.fromkeys(names))
        positions = sorted(r.randrange(0, n_stmts + 1) for _ in names)
        sub = {
            "consts": dict(env["consts"]),
            "labels_back": list(env["labels_back"]),
            "labels_fwd": names + list(env["labels_fwd"]),
            "local_labels": set(names),
            "reuse_labels": env["reuse_labels"] + names,
            "params": env["params"],
            "late": list(env.get("late", [])),
        }
        out = []
        li = 0
        for i in range(n_stmts + 1):
            while li < len(names) and positions[li] == i:
                nm = names[li]
                out.append(("label", nm))
                sub["labels_fwd"].remove(nm)
                sub["labels_back"].append(nm)
                li += 1
            if i == n_stmts:
                break
            out += self.statement(sub, depth)
        return out

    def statement(self, env, depth) -> list:
        r = self.rng
        f = self.features
        choices = [("op", 10), ("data", 4)]
        if "ascii" in f:
            choices.append(("ascii", 1))
        if "symbols" in f:
            choices += [("assign", 2), ("symbol", 1)]
        if depth < self.max_depth:
            if "blocks" in f:
                choices.append(("block", 2))
            if "scopes" in f:
                choices.append(("scope", 1))
            if "if" in f:
                choices.append(("if", 2))
            if "for" in f:
                choices.append(("for", 1.5))
            if "macros" in f and self.macros:
                choices.append(("apply", 3))
        if "files" in f:
            choices += [("incbin", 1.2), ("include", 0.8)]
        if "reloc" in f and r.random() < 0.04:
            choices.append(("org", 3))
            choices.append(("reloc", 2))
        total = sum(w for _, w in choices)
        x = r.random() * total
        for kind, wgt in choices:
            x -= wgt
            if x <= 0:
                break
        if kind == "op":
            return [self.instruction(env)]
        if kind == "data":
            return [self.data(env)]
        if kind == "ascii":
            return [("ascii", "".join(r.choice("abc XYZ019!?") for _ in range(r.randrange(0, 9))))]
        if kind == "assign":
            name = self.fresh("k_") if r.random() < 0.8 or not env["consts"] else r.choice(list(env["consts"]))
            v = r.choice([0, 1, 2, 5, 0x10, 0x7F, 0x80, 0xFF, 0x100, 0x1FF, 0x1234, 0xFFFF, 0x10000, 0x7E1000])
            env["consts"][name] = v
            return [("assign", name, self.lit(v))]
        if kind == "symbol":
            name = self.fresh("s_")
            st = [("symbol", name, self.expr(env, allow_forward=True, directive=True))]
            env.setdefault("late", []).append(name)
            return st
        if kind == "block":
            return [("block", self.body(env, depth + 1, r.randrange(0, 5)))]
        if kind == "scope":
            name = self.fresh("sc_")
            inner = self.body(env, depth + 1, r.randrange(1, 5))
            out = [("scope", name, inner)]
            exported = [s[1] for s in inner if s[0] == "label"]
            if exported and r.random() < 0.7:
                q = f"{name}.{r.choice(exported)}"
                env.setdefault("late", []).append(q)
                out.append(("data", r.choice(["dw", "dl"]), [q]))
            return out
        if kind == "if":
            cond = r.choice(["0", "1", "2", "0x100", "undefined_name", "1 - 1", "0 + 1"] +
                            list(env["consts"])[:3])
            then = self.body_noscope(self.branch_env(env), depth + 1, r.randrange(0, 4))
            els = self.body_noscope(self.branch_env(env), depth + 1, r.randrange(0, 3)) if r.random() < 0.5 else None
            return [("if", cond, then, els)]
        if kind == "for":
            var = self.fresh("i_")
            lo = r.choice([0, 0, 1, 3])
            hi = lo + r.choice([0, 1, 2, 3, 5]) - (1 if r.random() < 0.1 else 0)
            sub = dict(env)
            sub["late"] = list(env.get("late", [])) + [var]
            return [("for", var, self.lit(lo), self.lit(hi), self.body(sub, depth + 1, r.randrange(1, 4)))]
        if kind == "apply":
            name, params, takes_code = r.choice(self.macros)
            args = []
            for i, p in enumerate(params):
                if takes_code and i == len(params) - 1:
                    args.append(("code", self.body_noscope(self.branch_env(env), depth + 1, r.randrange(0, 3))))
                else:
                    args.append(self.expr(env, allow_forward=r.random() < 0.4, directive=True)
                                if r.random() < 0.6 else self.lit(r.choice([0, 1, 0x20, 0x1234])))
            return [("apply", name, args)]
        if kind == "incbin":
            path = f"bin{len(self.files)}_{r.choice(NAMES)}.bin"
            n = r.choice([0, 1, 2, 5, 12, 40, 300])
            self.files[path] = [r.randrange(256) for _ in range(n)]
            base = path.replace("/", "_").replace(".", "_")
            out = [("incbin", path)]
            if r.random() < 0.6:       # the start label and the size symbol the directive defines, used right behind it
                out.append(("data", r.choice(["dl", "pointer"]), [base, f"{base}__size"]))
            return out
        if kind == "include":
            path = f"inc{len(self.files)}_{r.choice(NAMES)}.s"
            inner = []
            for _ in range(r.randrange(1, 5)):
                k2 = r.random()
                if k2 < 0.5:
                    inner.append(self.instruction(env))
                elif k2 < 0.8:
                    inner.append(self.data(env))
                else:
                    lab = self.fresh("il_")
                    inner += [("label", lab), ("data", "dw", [lab])]
            self.files[path] = render(inner) + "\n"
            return [("include", path)]
        if kind == "org":
            if env["local_labels"] and env["labels_back"] and r.random() < 0.3:
                cands = [l for l in env["labels_back"] if l in env["local_labels"]]
                if cands:
                    return [("orgexpr", r.choice(cands))]
            return [("org", self.origin())]
        if kind == "reloc":
            return [("reloc", r.choice([0x7E0000, 0x7E2000, 0x7F0100]) if r.random() < 0.6 else self.origin())]
        return []

    @staticmethod
    def branch_env(env):
        """Names bound inside a branch that may not be taken must not be used after it."""
        sub = dict(env)
        sub["consts"] = dict(env["consts"])
        sub["late"] = list(env.get("late", []))
        return sub

    def body_noscope(self, env, depth, n) -> list:
        """Statements of an .if branch / code argument: no scope of their own, so no new labels that
        could collide; constants assigned inside stay visible after."""
        out = []
        for _ in range(n):
            out += self.statement(env, depth)
        return out

    def macro_def(self, env) -> tuple:
        r = self.rng
        name = self.fresh("m_")
        nparams = r.choice([0, 1, 1, 2, 3])
        params = [self.fresh("p_") for _ in range(nparams)]
        takes_code = nparams > 0 and r.random() < 0.25
        menv = {"consts": dict(env["consts"]), "labels_back": [], "labels_fwd": [], "local_labels": set(),
                "reuse_labels": [], "params": params}
        # parameters are visible as names inside the body (unknown values: never width-inferred)
        body = []
        for _ in range(r.randrange(1, 5)):
            k = r.random()
            value_params = params[:-1] if takes_code else params
            if value_params and k < 0.5:
                p = r.choice(value_params)
                body.append(r.choice([("data", "db", [p]), ("data", "dw", [f"{p} + 1"]), ("data", "dl", [p]),
                                      ("op", f"lda.w #{p}"), ("op", f"sta.l {p}"), ("op", f"ldx.b #{p}&0xFF")]))
            elif takes_code and k < 0.7:
                lk = ("lookup", params[-1])
                shape = r.random()
                if shape < 0.4:
                    body.append(lk)
                elif shape < 0.55:
                    body.append(("block", [("data", "db", ["1"]), lk]))
                elif shape < 0.7:
                    body.append(("for", self.fresh("i_"), "0", "2", [lk]))
                elif shape < 0.8:
                    body.append(("scope", self.fresh("sc_"), [lk]))
                elif shape < 0.9:
                    body.append(("if", "1", [lk], None))
                else:
                    inner = [m for m in self.macros if m[2] and len(m[1]) == 1]
                    body.append(("apply", inner[0][0], [("code", [lk])]) if inner else lk)
            elif k < 0.8:
                lab = self.fresh("ml_")
                body += [("label", lab), ("data", "dw", [lab])]
            else:
                body += self.statement(menv, self.max_depth - 1)
        self.macros.append((name, params, takes_code))
        return ("macro", name, params, body)

    def program(self, n_stmts=None) -> list:
        r = self.rng
        env = {"consts": {}, "labels_back": [], "labels_fwd": [], "local_labels": set(), "reuse_labels": [],
               "params": []}
        out = [("org", self.origin())]
        if "macros" in self.features:
            for _ in range(r.choice([0, 1, 2])):
                out.append(self.macro_def(env))
        n = n_stmts if n_stmts is not None else r.randrange(2, 12)
        out += self.body(env, 0, n, top=True)
        return out


# ---------------------------------------------------------------------------------- rendering

def render(stmts, indent=0) -> str:
    pad = "    " * indent
    lines = []
    for s in stmts:
        k = s[0]
        if k == "org":
            lines.append(f"{pad}*={s[1]:#08x}")
        elif k == "orgexpr":
            lines.append(f"{pad}*={s[1]}")
        elif k == "reloc":
            lines.append(f"{pad}@={s[1]:#08x}")
        elif k == "label":
            lines.append(f"{pad}{s[1]}:")
        elif k == "op":
            lines.append(f"{pad}{s[1]}")
        elif k == "data":
            lines.append(f"{pad}.{s[1]} " + ", ".join(s[2]))
        elif k == "ascii":
            lines.append(f"{pad}.ascii '{s[1]}'")
        elif k == "text":
            lines.append(f"{pad}.text '{s[1]}'")
        elif k == "table":
            lines.append(f"{pad}.table '{s[1]}'")
        elif k == "assign":
            lines.append(f"{pad}{s[1]} := {s[2]}")
        elif k == "symbol":
            lines.append(f"{pad}{s[1]} = {s[2]}")
        elif k == "block":
            lines += [f"{pad}{{", render(s[1], indent + 1), f"{pad}}}"]
        elif k == "scope":
            lines += [f"{pad}.scope {s[1]} {{", render(s[2], indent + 1), f"{pad}}}"]
        elif k == "macro":
            lines += [f"{pad}.macro {s[1]}({', '.join(s[2])}) {{", render(s[3], indent + 1), f"{pad}}}"]
        elif k == "apply":
            args = []
            for a in s[2]:
                if isinstance(a, tuple):
                    args.append("{\n" + render(a[1], indent + 1) + f"\n{pad}}}")
                else:
                    args.append(a)
            lines.append(f"{pad}{s[1]}(" + ", ".join(args) + ")")
        elif k == "lookup":
            lines.append(f"{pad}{{{{{s[1]}}}}}")
        elif k == "if":
            lines += [f"{pad}.if {s[1]} {{", render(s[2], indent + 1)]
            if s[3] is not None:
                lines += [f"{pad}}} else {{", render(s[3], indent + 1)]
            lines.append(f"{pad}}}")
        elif k == "for":
            lines += [f"{pad}.for {s[1]} := {s[2]}, {s[3]} {{", render(s[4], indent + 1), f"{pad}}}"]
        elif k == "incbin":
            lines.append(f"{pad}.incbin '{s[1]}'")
        elif k == "include":
            lines.append(f"{pad}.include '{s[1]}'")
        elif k == "include_ips":
            lines.append(f"{pad}.include_ips '{s[1]}', {s[2]}")
        elif k == "map":
            lines.append(f"{pad}.map {s[1]}")
        elif k == "comment":
            lines.append(f"{pad}; {s[1]}")
        elif k == "raw":
            lines.append(s[1])
        else:
            raise ValueError(k)
    return "\n".join(l for l in lines if l != "")


def count_kinds(stmts, acc=None) -> dict:
    acc = acc if acc is not None else {}
    for s in stmts:
        acc[s[0]] = acc.get(s[0], 0) + 1
        for part in s[1:]:
            if isinstance(part, list) and part and isinstance(part[0], tuple):
                count_kinds(part, acc)
            elif isinstance(part, list):
                for a in part:
                    if isinstance(a, tuple) and a and a[0] == "code":
                        count_kinds(a[1], acc)
    return acc
