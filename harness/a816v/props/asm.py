"""ASM — model tie of the whole assembler core (M4 + M5): generated programs are parsed by the real
parser, the AST is shipped to Coq, and Model/Codegen.v + Program.v must produce the same writer calls
and labels (or reject) as Program.assemble_string_with_emitter.  Shared helpers for C02/C03/C05/C07-C10."""
from __future__ import annotations

from .. import asmdriver, astexport, progen
from .. import common as C
from ..obs import obs_term

ID = "ASM"
TABLES = ("From A816 Require Model.Table.\n" +"Require Import Run.GenBuses Run.GenOpcodes.\n"
          "Definition T : tables := {| t_low := Run.GenBuses.low_rom_bus; t_high := Run.GenBuses.high_rom_bus; "
          "t_busmap := Run.GenBuses.bus_mapping; t_optable := Run.GenOpcodes.opcode_table; "
          "t_prec := Run.GenOpcodes.operator_precedence |}.")
HEADER = "From A816 Require Import Oracle.Asmo Model.Ips.\n" + TABLES
CASE_TYPE = "asmcase * obs asmobs"
CHECK = "fun c => (corr T (fst c) (snd c), true)"
MODEL_VIEW = "fun c => model_obs T (fst c)"
THEOREMS: list[str] = []
PROOF_HEADER = "From A816 Require Import Oracle.Asmo."
RULE = ("generated programs (instructions, data, .ascii, labels, symbols, .incbin, .include, nested blocks/scopes/macros/loops/conditionals, *= and @= moves, "
        "LoROM/HiROM) parsed by the real parser; model and implementation must agree on writer calls, labels and "
        "accept/reject; non-trivial = the program assembles and emits at least one byte; distinct by source text")
PROVED_NOTE = "model tie only (no property theorem attached to this module)"
SHARD = 60
CASE_TIMEOUT = 20

ROM_CODE = {"low": "LowRom", "low2": "LowRom2", "high": "HighRom"}


def gen_case(rng, rom=None, features=None, n_stmts=None):
    rom = rom if rom is not None else rng.choice(["low", "low", "low", "high", "low2"])
    if features is None:
        features = {"blocks", "scopes", "macros", "if", "for", "reloc", "data", "ascii", "symbols", "files"}
    g = progen.Gen(rng, rom=rom, features=features)
    tree = g.program(n_stmts)
    c = {"kind": "prog", "rom": rom, "src": progen.render(tree) + "\n", "tree_kinds": progen.count_kinds(tree)}
    if g.files:
        c["files"] = dict(g.files)
    return c


def cases(ctx):
    rng, tier = ctx["rng"], ctx["tier"]
    n = 400 if tier == "quick" else 6000
    return [gen_case(rng) for _ in range(n)]


def observe(case):
    """Parse with the real parser (AST exported for the model), then run the real assembler."""
    files = case.get("files") or {}
    err, nodes = asmdriver.parse(case["src"], files)
    if err is not None:
        return {"syntax_error": err[:300]}
    try:
        ast = astexport.export_program(nodes, positions=bool(case.get("positions")))
    except astexport.Unexportable as e:
        return {"driver_error": f"unexportable: {e}"}
    ob = asmdriver.assemble(case["src"], files, rom=case.get("rom"), defines=case.get("defines"),
                            trace=bool(case.get("trace")))
    ob["ast"] = ast
    return ob


def files_term(case) -> str:
    files = case.get("files") or {}
    bins = [(k, v) for k, v in files.items() if isinstance(v, (bytes, list)) and not k.endswith(".ips")]
    fb = C.clist(bins, lambda kv: C.cpair(C.cstr(kv[0]), C.cbytes(bytes(kv[1]))))
    ips = [(k, v) for k, v in files.items() if isinstance(v, (bytes, list)) and k.endswith(".ips")]
    fi = C.clist(ips, lambda kv: C.cpair(C.cstr(kv[0]), f"(fun d => A816.Model.Ips.read_ips d {C.cbytes(bytes(kv[1]))})"))
    tbls = [(k, v["tbl"]) for k, v in files.items() if isinstance(v, dict) and "tbl" in v]
    ft = C.clist(tbls, lambda kv: C.cpair(C.cstr(kv[0]), (
        "(match A816.Model.Table.table_of_entries "
        + C.clist(kv[1], lambda tc: f"({C.cstr(tc[0])}, {C.cbytes(bytes(tc[1]))}, None)")
        + " with Ok tb => Ok (A816.Model.Table.to_bytes tb) | Err k => Err k | OutOfFuel => OutOfFuel end)")))
    return f"{{| f_bin := {fb}; f_tables := {ft}; f_ips := {fi} |}}"


def case_term(case, ob) -> str:
    rom = case.get("rom")
    defs = C.clist(list((case.get("defines") or {}).items()), lambda kv: C.cpair(C.cstr(kv[0]), C.z(kv[1])))
    return (f"{{| ac_rom := {C.copt(rom, lambda r: ROM_CODE[r])}; ac_defs := {defs}; "
            f"ac_files := {files_term(case)}; ac_prog := {ob.get('ast', '[]')} |}}")


def asmobs_term(v) -> str:
    blocks = C.clist(v["blocks"], lambda ba: C.cpair(C.cbytes(bytes(ba[0])), C.z(ba[1])))
    labels = C.clist(v["labels"], lambda nv: C.cpair(C.cstr(nv[0]), C.z(nv[1])))
    return C.cpair(blocks, labels)


def coq_term(case, ob):
    if "syntax_error" in ob or "driver_error" in ob:
        # outside this module's domain (the generator only emits syntactically valid programs): fail loudly
        return f"({case_term(case, {})}, OTimeout)"
    return f"({case_term(case, ob)}, {obs_term(ob, asmobs_term)})"


def nontrivial_key(case, ob):
    if "ok" in ob and any(b for b, _ in ob["ok"]["blocks"]):
        return C.short_hash(case["src"])
    return None


def tags(case, ob):
    t = [f"rom:{case.get('rom')}", "accepted" if "ok" in ob else f"rejected:{ob.get('err', 'syntax')}"]
    for k in (case.get("tree_kinds") or {}):
        t.append(f"stmt:{k}")
    return t
