"""C01 — accepted instructions encode exactly as the 65c816 ISA defines.

Exhaustive statement matrix (every table mnemonic x operand shape x size suffix x operand value
class x letter case), each statement assembled alone at 0x008000 through
Program.assemble_string_with_emitter with a stub writer.

  correspondence bit: Model/Opcode.v (opnode_length / opnode_emit on the regenerated live table and
                      the OpcodeAstNode exported from the real parser) vs the implementation's blocks
  oracle bit:         expected outcome from the DESCRIPTOR (mnemonic, shape, suffix, value) through the
                      independent matrix Spec/Isa65816.v and the pinned Spec/SupportedSet.v only
"""
from __future__ import annotations

import contextlib
import io
import logging

from .. import common as C

ID = "C01"
HEADER = "From A816 Require Import Oracle.C01o.\nRequire Import Run.GenOpcodes Run.GenBuses."
# (case, lenient): a lenient case is one the assembler may also refuse (its operand symbol has another value while labels
# are resolved: the phase check of C02 then rejects it); when it is accepted, the bytes must still be the ISA encoding for the
# value the operand has at emission.  The emitter model is not asked about lenient cases (the passes belong to C02).
CASE_TYPE = "case * bool"
CHECK = ("fun x : case * bool => let r := check Run.GenOpcodes.opcode_table Run.GenBuses.low_rom_bus (fst x) in "
         "if snd x then (true, match c_impl (fst x) with OErr _ => true | _ => snd r end) else r")
MODEL_VIEW = "fun x : case * bool => model_view Run.GenOpcodes.opcode_table Run.GenBuses.low_rom_bus (fst x)"
THEOREMS = [
    "C01_table_sound_generic", "C01_supported_kept_generic", "C01_supported_assembles", "C01_width_char",
    "C01_width_negative", "C01_emit_value", "C01_pack_decode", "C01_pack_length", "C01_emit", "C01_emit_accepts",
    "C01_emit_reject", "C01_emit_noperand", "C01_length", "C01_length_agree", "C01_get_emitter", "C01_get_emitter_ok",
    "C01_accepted_is_isa", "C01_undefined_rejected", "C01_isa_matrix_wf", "C01_oracle_accept_sound",
    "C01_oracle_reject_sound", "C01_shape_key", "C01_shape",
    "C01_text_scan", "C01_operand_syntax_mode", "C01_text_passes", "C01_text_passes_rejected", "C01_text", "C01_text_plain",
    "C01_text_implied", "C01_text_rejected", "C01_text_generic", "C01_text_is_isa",
]
PROOF_HEADER = "From A816 Require Import Properties.C01 Properties.C01Text."
# model-tie modules whose correspondence is part of this property's check (parts of the model its theorems rest on)
TIES = ['PARSE']
RULE = ("every mnemonic of the live table x 19 operand shapes (implied, #v, v, v,x v,y v,s (v) (v),y [v] [v],y (v,x) "
        "(v,s),y and 7 malformed index combinations) x suffix {none,.b,.w,.l} x operand {0,0xFF,0x100,0xFFFF,0x10000,"
        "0xFFFFFF,0x1000000, := symbol, expression} x letter case {lower,UPPER,Mixed}; quick: every (mnemonic, shape, "
        "suffix) at least once plus a random sample; thorough: the whole matrix; plus a small negative-operand stream; "
        "a case is non-trivial when the statement is accepted; distinct by (mnemonic, shape, suffix, value)")
PROVED_NOTE = ("proved for all Z / all tables: the width rule (hex digit count <-> magnitude classes), emit_value = LE "
               "truncation, emitter_emit = opcode :: LE operand and its exact rejection condition, length agreement, "
               "get_emitter rejections; for any table with table_ok = true every accepted OpcodeNode emission equals the "
               "encoding computed from the independent 256-opcode matrix; per run: table_ok / supported_ok of the "
               "regenerated live table by vm_compute. operand syntax -> (mode, index, size, operand) proved on the parser model for the ten statement "
               "shapes (C01_shape) with the malformed index combinations rejected. WHOLE PIPELINE ON SOURCE TEXT "
               "(Properties/C01Text.v): for `*=<org>` newline `<mnemonic>[.b|.w|.l] <operand>` in EVERY operand syntax (none, #e, e, e,i, "
               "(e), (e),i, [e], [e],i, (e,i), (e,s),y), any letter case, arbitrary spacing, any closed operand expression: "
               "the scanner yields the statement's tokens, the parser the addressing mode of that syntax (operand syntax -> mode), and "
               "assemble_source yields exactly one block = the table row's encoding (opcode byte of the resolved width + LE operand) at "
               "the LoROM offset, or a rejection when the live table has no row; composed with the table theorem: source text => the bytes the "
               "independent ISA matrix computes (C01_text_is_isa); side conditions discharged per run on the live tables. "
               "Not in the text theorem: relative branches (C05), identifiers in operands, emit-time width failures (node level only). "
               "Correspondence-only: that scanner/parser/cpu_65c816.py/nodes.py compute what the models compute (own matrix + PARSE tie).")
EXHAUSTIVE = {"quick": False, "thorough": True}
SHARD = 250
MANIFEST = {
    "text": ("Instruction encodings: the emitters of cpu_65c816.py/nodes.py are modelled in Gallina; for every integer operand, "
             "size suffix and emitter the emitted bytes are proved to be the table byte followed by the little-endian truncation "
             "of the operand, with the exact rejection condition; the live opcode table is regenerated each run and proved (by "
             "computation) to agree entry by entry with an independent 256-opcode 65c816 matrix and to contain the pinned "
             "supported set. Tie: exhaustive statement matrix run through the real assembler, compared with the model on the "
             "parser's AST and with an oracle computed from the statement descriptor through the independent matrix only."),
    "note": ("Trusted: Coq kernel + vm_compute; table translator; correspondence harness; hand-written Spec/Isa65816.v "
             "(from the WDC data sheet) and the pinned Spec/SupportedSet.v. The operand-syntax -> addressing-mode step is proved "
             "on the parser model (C01_operand_syntax_mode) and tied by the exhaustive matrix."),
    "technique": "Coq proof over a Gallina model + regenerated tables + exhaustive differential correspondence with vm_compute",
}


def instantiate(gen_q):
    text = (
        "Require Import Run.GenOpcodes.\n"
        "From A816 Require Import Proofs.OpcodeProofs Properties.C01.\n"
        "Lemma live_table_ok : table_ok Run.GenOpcodes.opcode_table = true.\n"
        "Proof. vm_compute. reflexivity. Qed.\n"
        "Lemma live_supported_ok : supported_ok Run.GenOpcodes.opcode_table = true.\n"
        "Proof. vm_compute. reflexivity. Qed.\n"
        "Definition C01_table_sound := C01_table_sound_generic _ live_table_ok.\n"
        "Definition C01_supported_kept := C01_supported_kept_generic _ live_supported_ok.\n"
        "Definition C01_supported_assembles_live := C01_supported_assembles _ live_supported_ok live_table_ok.\n"
        "Definition C01_accepted_is_isa_live := C01_accepted_is_isa _ live_table_ok.\n"
        "Definition C01_undefined_rejected_live := C01_undefined_rejected _ live_table_ok.\n"
    )
    # the whole-pipeline text theorem on the live tables (bus, busmap, precedence table; lexicon and opcode table are
    # the live ones inside L01)
    text += (
        "From A816 Require Import Model.Assemble Spec.BusLaws Proofs.BusProofs Proofs.ExprProofs Proofs.DataText "
        "Proofs.InsnTextScan Proofs.InsnTextParse Proofs.InsnTextGen Proofs.InsnText Properties.C01Text.\n"
        "Require Import Run.GenBuses Run.GenLexicon.\n"
        "Definition L01 : live := {| lv_low := Run.GenBuses.low_rom_bus; lv_high := Run.GenBuses.high_rom_bus; "
        "lv_busmap := Run.GenBuses.bus_mapping; lv_optable := Run.GenOpcodes.opcode_table; "
        "lv_prec := Run.GenOpcodes.operator_precedence; "
        "lv_lex := mk_lexicon Run.GenLexicon.mnemonics Run.GenLexicon.mnemonics_without_operand Run.GenLexicon.keywords |}.\n"
        "Definition C01_default : config := {| cf_rom := None; cf_defines := [] |}.\n"
        "Lemma L01_bus : bus_agree_b (lv_low L01) lorom = true. Proof. vm_compute. reflexivity. Qed.\n"
        "Lemma L01_cfg : low_rom_config L01 C01_default. Proof. split; [vm_compute; reflexivity|exact I]. Qed.\n"
        "Lemma L01_prec : prec_compatible (lv_prec L01) = true. Proof. vm_compute. reflexivity. Qed.\n"
        "Definition C01_text_live fs fname sp0 eorg org mn sz os sh e i1 i2 v em bs rc0 := "
        "C01_text L01 fs C01_default fname sp0 eorg org mn sz os sh e i1 i2 v em bs rc0 L01_bus L01_cfg L01_prec.\n"
        "Definition C01_text_rejected_live := fun fs fname => C01_text_rejected L01 fs C01_default fname.\n"
        "Definition C01_text_is_isa_live := fun fs fname sp0 eorg org mn sz os sh e i1 i2 v defs b => "
        "C01_text_is_isa L01 fs C01_default fname sp0 eorg org mn sz os sh e i1 i2 v defs b live_table_ok L01_bus L01_cfg L01_prec.\n"
    )
    return text, ["C01_table_sound", "C01_supported_kept", "C01_supported_assembles_live", "C01_accepted_is_isa_live",
                  "C01_undefined_rejected_live", "C01_text_live", "C01_text_rejected_live", "C01_text_is_isa_live"]


# ----------------------------------------------------------------------------- the matrix

# (name, Coq constructor, operand template); index letters are written i/j/k-free: x y s literal
SHAPES = [
    ("implied", "ShImplied", None),
    ("imm", "ShImm", "#{v}"),
    ("dir", "ShDir", "{v}"),
    ("dirx", "ShDirX", "{v},x"),
    ("diry", "ShDirY", "{v},y"),
    ("dirs", "ShDirS", "{v},s"),
    ("ind", "ShInd", "({v})"),
    ("indy", "ShIndY", "({v}),y"),
    ("lng", "ShLng", "[{v}]"),
    ("lngy", "ShLngY", "[{v}],y"),
    ("xind", "ShXInd", "({v},x)"),
    ("sindy", "ShSIndY", "({v},s),y"),
    # malformed index combinations: no 65c816 addressing mode
    ("bad_xind_y", "ShBad", "({v},x),y"),
    ("bad_yind_y", "ShBad", "({v},y),y"),
    ("bad_yind", "ShBad", "({v},y)"),
    ("bad_sind", "ShBad", "({v},s)"),
    ("bad_ind_x", "ShBad", "({v}),x"),
    ("bad_lng_x", "ShBad", "[{v}],x"),
    ("bad_imm_x", "ShBad", "#{v},x"),
    ("bad_lng_xin", "ShBad", "[{v},x]"),
    ("bad_lng_sin_y", "ShBad", "[{v},s],y"),
    ("bad_lng_yin", "ShBad", "[{v},y]"),
]
SHAPE = {s[0]: s for s in SHAPES}
SUFFIXES = [None, "b", "w", "l"]
LITERALS = [0, 0xFF, 0x100, 0xFFFF, 0x10000, 0xFFFFFF, 0x1000000]
VALKINDS = [f"lit:{v}" for v in LITERALS] + ["sym", "expr"]
LCASES = ["lower", "upper", "mixed"]
# values given to the symbol / produced by the expression (one is drawn per case)
SYM_VALUES = [0x12, 0xFF, 0x100, 0x1234, 0xFFFF, 0x10000, 0x123456]
EXPRS = [("0x80+0x7F", 0xFF), ("0xFF+1", 0x100), ("0x1200+0x34", 0x1234), ("2*(3+4)", 14), ("(3+4)*2", 14),
         ("0x10000-1", 0xFFFF), ("0x12<<16|0x3456", 0x123456), ("0xFF00&0x1FF0|0xF", 0x1F0F), ("0xFFFF+1", 0x10000)]
# 8-bit relative branches (from the ISA, not from the table): they get in-window targets as well
REL8 = {"bcc", "bcs", "beq", "bmi", "bne", "bpl", "bra", "bvc", "bvs"}
REL_TARGETS = [0x008000, 0x008002, 0x008010, 0x008081, 0x008082, 0x007F82, 0x007F81]
NEGATIVES = [-1, -0x80, -0x81, -0x100, -0x8000, -0x10000, -0x800000]


def _hex(v: int, upper: bool) -> str:
    if v < 0:
        return "-" + _hex(-v, upper)
    digits = format(v, "X" if upper else "x")
    return "0x" + digits


def _operand_text(valkind: str, v: int, expr_text, upper: bool, symname: str = "some_val") -> str:
    if valkind == "sym":
        return symname
    if valkind == "expr":
        return expr_text.upper().replace("0X", "0x") if upper else expr_text
    if valkind.startswith("litpad") and v >= 0:
        # the same value written with redundant leading zeros (into the next digit-count class and beyond): the width
        # comes from the VALUE, not from the number of digits written
        digits = format(v, "X" if upper else "x")
        return "0x" + digits.zfill(len(digits) + 2 + 2 * (v % 2))
    return _hex(v, upper)


def build(mn: str, shape: str, suffix, valkind: str, v: int, expr_text, lcase: str, symname: str = "some_val", final_newline: bool = True) -> dict:
    upper = lcase in ("upper", "mixed")
    m = {"lower": mn, "upper": mn.upper(), "mixed": mn.capitalize()}[lcase]
    sfx = "" if suffix is None else "." + (suffix.upper() if lcase == "upper" else suffix)
    tmpl = SHAPE[shape][2]
    stmt = m + sfx
    if tmpl is not None:
        op = tmpl.format(v=_operand_text(valkind, v, expr_text, upper, symname))
        if upper and symname == "some_val":   # index letters follow the case choice (the operand text has no other x/y/s)
            op = op.replace(",x", ",X").replace(",y", ",Y").replace(",s", ",S")
        stmt += " " + op
    src = "*=0x008000\n"
    if valkind == "sym":
        src += f"{symname} := {_hex(v, False)}\n"
    src += stmt + ("\n" if final_newline else "")
    return {"mn": m, "shape": shape, "suffix": suffix, "valkind": valkind, "v": v, "lcase": lcase, "stmt": stmt, "src": src}


def _variants(mn: str, shape: str):
    """All (valkind, value, expr) choices of one (mnemonic, shape): implied has a single one."""
    if shape == "implied":
        return [("none", 0, None)]
    out = [(f"lit:{v}", v, None) for v in LITERALS]
    out += [(f"litpad:{v}", v, None) for v in LITERALS if 0 <= v < 0x10000]
    out += [("sym", v, None) for v in SYM_VALUES]
    out += [("expr", v, t) for t, v in EXPRS]
    if mn in REL8:
        out += [(f"lit:{v}", v, None) for v in REL_TARGETS] + [("sym", v, None) for v in REL_TARGETS[:4]]
    return out


_MATRIX_SHAPE = {"imp": "implied", "A": "implied", "#m": "imm", "#x": "imm", "imm8": "imm", "dp": "dir", "abs": "dir",
                 "long": "dir", "dp,X": "dirx", "abs,X": "dirx", "long,X": "dirx", "dp,Y": "diry", "abs,Y": "diry",
                 "sr,S": "dirs", "(dp)": "ind", "(abs)": "ind", "(dp),Y": "indy", "[dp]": "lng", "[abs]": "lng",
                 "[dp],Y": "lngy", "(dp,X)": "xind", "(abs,X)": "xind", "(sr,S),Y": "sindy", "rel8": "dir"}


def _isa_defined_pairs(mns):
    """(mnemonic, shape) pairs some 65c816 instruction has — read from the Appendix D matrix (the same
    independent source as Spec/Isa65816.v); used only to bias the quick-tier sample, never as an expectation."""
    path = C.VERIF / "spikes" / "isa_matrix.txt"
    if not path.exists():
        return []
    pairs = set()
    for line in path.read_text().splitlines():
        for cell in line.strip().split("|"):
            parts = cell.split(" ")
            if len(parts) != 3 or parts[2] not in _MATRIX_SHAPE:
                continue
            name = {"JSL": "jsr", "JML": "jmp"}.get(parts[1], parts[1].lower())
            if name in mns:
                pairs.add((name, _MATRIX_SHAPE[parts[2]]))
    return sorted(pairs)


def _mnemonics():
    from a816.cpu.cpu_65c816 import snes_opcode_table
    return list(snes_opcode_table.keys())


def cases(ctx):
    rng, tier = ctx["rng"], ctx["tier"]
    mns = _mnemonics()
    out = []
    if tier == "thorough":
        for mn in mns:
            for shape, _, _ in SHAPES:
                for suffix in SUFFIXES:
                    vs = _variants(mn, shape)
                    # the documented matrix: 7 literals + one symbol + one expression (all of them for a few mnemonics)
                    if mn not in ("lda", "sta", "jmp", "jsr", "ora", "ldx", "pea", "rep", "bra"):
                        lits = [x for x in vs if x[0].startswith("lit") or x[0] == "none"]
                        vs = lits + [rng.choice([x for x in vs if x[0] == "sym"] or lits)] + \
                            [rng.choice([x for x in vs if x[0] == "expr"] or lits)]
                        if shape == "implied":
                            vs = lits
                    for vk, v, et in vs:
                        for lc in LCASES:
                            out.append(build(mn, shape, suffix, vk, v, et, lc))
    else:
        triples = [(mn, shape, suffix) for mn in mns for shape, _, _ in SHAPES for suffix in SUFFIXES]
        for mn, shape, suffix in triples:
            vk, v, et = rng.choice(_variants(mn, shape))
            out.append(build(mn, shape, suffix, vk, v, et, rng.choice(LCASES)))
        # ISA-defined combinations deserve every boundary value: a denser sample biased towards them
        defined = _isa_defined_pairs(mns)
        valid_shapes = [s[0] for s in SHAPES if s[1] != "ShBad"]
        for _ in range(5500):
            if defined and rng.random() < 0.85:
                mn, shape = rng.choice(defined)
            else:
                mn, shape = rng.choice(mns), rng.choice(valid_shapes)
            suffix = rng.choice(SUFFIXES)
            vk, v, et = rng.choice(_variants(mn, shape))
            out.append(build(mn, shape, suffix, vk, v, et, rng.choice(LCASES)))
    # the operand symbol is re-defined in an inner scope (`=` is not seen by the label pass): if the statement is accepted
    # at all, its width and bytes must be those of the value it has when it is emitted
    for mn, shape in (("lda", "dir"), ("sta", "dir"), ("lda", "dirx"), ("adc", "dir"), ("ldx", "dir"), ("cmp", "dirx"), ("jmp", "dir")):
        for outer in (0x10, 0x1234, 0x123456):
            for inner in (0x12, 0xFF, 0x100, 0x1234, 0xFFFF, 0x10000, 0x123456):
                c = build(mn, shape, None, "sym", inner, None, "lower")
                c["src"] = (f"*=0x008000\nsome_val := {_hex(outer, False)}\n{{\nsome_val = {_hex(inner, False)}\n"
                            f"{c['stmt']}\n}}\n")
                c["valkind"] = "shadow"
                c["lenient"] = True
                out.append(c)
    # operand symbols whose NAME is a register letter or another one-letter name (`a := 0x10` / `inc a`): an identifier operand
    # is a symbol for every mnemonic, also for those that have an operand-less (accumulator / implied) form
    one_letter = [(mn, shape, suffix, name, v) for mn in mns for shape in ("dir", "dirx", "imm", "ind") for suffix in (None, "w")
                  for name, v in (("a", 0x10), ("A", 0x1234), ("x", 0x12), ("s", 0x1234))]
    for mn, shape, suffix, name, v in (one_letter if tier == "thorough" else
                                       [t for t in one_letter if t[3] in ("a", "A") and t[1] in ("dir", "dirx")] + rng.sample(one_letter, 300)):
        c = build(mn, shape, suffix, "sym", v, None, "lower", symname=name)
        c["valkind"] = "sym:one-letter"
        out.append(c)
    # the statement as the very last characters of the text (no final newline), operands of one character
    for mn in mns:
        for shape in ("dir", "dirx", "imm", "implied", "ind"):
            for vk, v, name in (("lit:5", 5, "some_val"), ("sym", 0x1234, "q")):
                if shape == "implied" and vk == "sym":
                    continue
                c = build(mn, shape, None, vk if shape != "implied" else "none", v if shape != "implied" else 0, None, "lower", symname=name, final_newline=False)
                c["valkind"] = "no-final-newline"
                out.append(c)
    # negative operands (outside the property's width rule; truncation and the model's sign handling)
    for mn in ("lda", "sta", "jmp", "ldx", "rep"):
        for shape in ("imm", "dir", "dirx"):
            for suffix in SUFFIXES:
                for v in NEGATIVES:
                    out.append(build(mn, shape, suffix, f"lit:{v}", v, None, "lower"))
    return out


# ----------------------------------------------------------------------------- implementation driver

class _StubWriter:
    def __init__(self):
        self.blocks = []

    def begin(self):
        pass

    def end(self):
        pass

    def write_block_header(self, block, block_address):
        pass

    def write_block(self, block, block_address):
        self.blocks.append([int(block_address), list(bytes(block))])


def _observe_result(f):
    from ..obs import exc_kind
    try:
        return f()
    except Exception as e:
        if type(e).__name__ == "Timeout":
            raise
        return {"err": exc_kind(e), "msg": f"{type(e).__name__}: {e}"[:200]}


def observe(case):
    from a816.parse.ast.nodes import OpcodeAstNode
    from a816.parse.mzparser import MZParser
    from a816.program import Program
    logging.disable(logging.CRITICAL)
    sink = io.StringIO()

    def run_impl():
        w = _StubWriter()
        err = Program().assemble_string_with_emitter(case["src"], "m.s", w)
        if err is not None:
            return {"err": "EParse", "msg": str(err)[:200]}
        return {"ok": w.blocks}

    def run_ast():
        r = MZParser.parse_as_ast(case["src"], "m.s")
        if r.error is not None:
            return {"err": "EParse", "msg": str(r.error)[:200]}
        ops = [n for n in r.nodes if isinstance(n, OpcodeAstNode)]
        if len(ops) != 1:
            raise RuntimeError(f"expected one opcode statement, parser produced {len(ops)}")
        n = ops[0]
        return {"ok": {"mode": n.addressing_mode.value, "index": n.index, "size": n.value_size, "opcode": n.opcode}}

    with contextlib.redirect_stdout(sink), contextlib.redirect_stderr(sink):
        impl = _observe_result(run_impl)
        ast = _observe_result(run_ast)
    out = {"impl": impl, "ast": ast}
    if "ok" in impl:
        out["ok"] = True
    return out


# ----------------------------------------------------------------------------- Coq terms

_MODES = ["M_none", "M_immediate", "M_direct", "M_direct_indexed", "M_indirect", "M_indirect_indexed", "M_indirect_long",
          "M_indirect_indexed_long", "M_dp_or_sr_indirect_indexed", "M_stack_indexed_indirect_indexed"]
_SZ = {"b": "SzB", "w": "SzW", "l": "SzL"}


def _size(s) -> str:
    return "None" if s is None else f"(Some {_SZ[s]})"


def _obs(ob, f) -> str:
    if "ok" in ob:
        return f"(OOk {f(ob['ok'])})"
    if "err" in ob:
        return f"(OErr {ob['err']})"
    return "OTimeout"


def _ast(a) -> str:
    size = a["size"]
    if size not in (None, "b", "w", "l"):
        raise ValueError(f"unexpected value_size {size!r}")
    return f"(AV {_MODES[a['mode']]} {C.copt(a['index'], C.cstr)} {_size(size)} {C.cstr(a['opcode'])})"


def _blocks(bl) -> str:
    return C.clist(bl, lambda b: C.cpair(C.z(b[0]), C.zlist(b[1])))


def coq_term(case, ob):
    lenient = C.cbool(bool(case.get("lenient")))
    if "impl" not in ob:   # timeout / driver error
        return f"(C {C.cstr(case['mn'])} {SHAPE[case['shape']][1]} {_size(case['suffix'])} {C.z(case['v'])} OTimeout OTimeout, {lenient})"
    return (f"(C {C.cstr(case['mn'])} {SHAPE[case['shape']][1]} {_size(case['suffix'])} {C.z(case['v'])} "
            f"{_obs(ob['ast'], _ast)} {_obs(ob['impl'], _blocks)}, {lenient})")


def nontrivial_key(case, ob):
    if "ok" not in ob:
        return None
    return [case["mn"].lower(), case["shape"], case["suffix"], case["v"]]


def tags(case, ob):
    kind = "malformed" if SHAPE[case["shape"]][1] == "ShBad" else case["shape"]
    return [f"{kind}:{'accepted' if 'ok' in ob else 'rejected'}", f"suffix:{case['suffix'] or 'none'}",
            f"case:{case['lcase']}", f"value:{case['valkind'].split(':')[0]}"]


def search(ctx, evaluate):
    """After a proof/correspondence break: one statement per live table entry and width, lower case."""
    from a816.cpu import cpu_65c816 as cpu
    shape_of = {(2, None): "dir", (1, None): "imm", (3, "x"): "dirx", (3, "y"): "diry", (3, "s"): "dirs", (4, None): "ind",
                (5, "y"): "indy", (6, None): "lng", (7, "y"): "lngy", (8, "x"): "xind", (9, "y"): "sindy", (0, None): "implied"}
    cs = []
    for mn, by_mode in cpu.snes_opcode_table.items():
        for mode, d in by_mode.items():
            for idx, e in (d.items() if isinstance(d, dict) else [(None, d)]):
                shape = shape_of.get((mode.value, idx))
                if shape is None:
                    continue
                if shape == "implied":
                    cs.append(build(mn, shape, None, "none", 0, None, "lower"))
                    continue
                for suffix, v in (("b", 0x12), ("w", 0x1234), ("l", 0x123456), (None, 0xFF), (None, 0x100), (None, 0x10000)):
                    cs.append(build(mn, shape, suffix, f"lit:{v}", v if mn not in REL8 else 0x8010, None, "lower"))
    for c, o, corr_ok, spec_ok in evaluate(cs):
        if not spec_ok:
            return c, o
    return None
