"""C02 — every label equals the address where the next byte is really emitted."""
from __future__ import annotations

from .. import core
from ..core import HEADER, CASE_TYPE, CHECK, MODEL_VIEW, SHARD, CASE_TIMEOUT, observe, coq_term, nontrivial_key, tags  # noqa: F401

ID = "C02"
THEOREMS = ["C02_phase_agreement", "C02_label_pass_is_run", "C02_label_binding", "C02_size_agree",
            "C02_opcode_size_agree", "C02_fail_not_shift", "C02_phase_check", "C02_label_final_value",
            "C02_trace_oracle", "C02_first_pass_visits", "C02_label_final_value_scoped",
            "C02_text_scan", "C02_text_parse", "C02_opcode_test", "C02_engine", "C02_label_then_data", "C02_data_then_label"]
PROOF_HEADER = "From A816 Require Import Properties.C02 Properties.C02Text."

def instantiate(gen_q):
    """Per-run: the table side conditions of the text theorems hold on the live tables."""
    text = (
        "From A816 Require Import Model.Assemble Spec.BusLaws Proofs.BusProofs Proofs.ExprProofs Proofs.DataText Proofs.LabelText.\n"
        "Require Import Run.GenBuses Run.GenOpcodes Run.GenLexicon.\n"
        "Definition L02 : live := {| lv_low := Run.GenBuses.low_rom_bus; lv_high := Run.GenBuses.high_rom_bus; "
        "lv_busmap := Run.GenBuses.bus_mapping; lv_optable := Run.GenOpcodes.opcode_table; "
        "lv_prec := Run.GenOpcodes.operator_precedence; "
        "lv_lex := mk_lexicon Run.GenLexicon.mnemonics Run.GenLexicon.mnemonics_without_operand Run.GenLexicon.keywords |}.\n"
        "Definition C02_default : config := {| cf_rom := None; cf_defines := [] |}.\n"
        "Lemma L02_tables : tables_ok L02 C02_default.\n"
        "Proof. split; [vm_compute; reflexivity|split; [split; [vm_compute; reflexivity|exact I]|vm_compute; reflexivity]]. Qed.\n"
        "Definition C02_label_then_data_live := fun fs fname => C02_label_then_data L02 fs C02_default fname.\n"
        "Definition C02_data_then_label_live := fun fs fname => C02_data_then_label L02 fs C02_default fname.\n"
        "Definition C02_tables_live := L02_tables.\n"
    )
    return text, ["C02_label_then_data_live", "C02_data_then_label_live", "C02_tables_live"]

# model-tie modules whose correspondence is part of this property's check (parts of the model its theorems rest on)
TIES = ['ASM']
RULE = ("generated programs (instructions, data, .ascii, labels, symbols, .incbin, .include; nested blocks/scopes/macros/loops/conditionals, *= and @= moves, "
        "LoROM/HiROM/low2) + width-inference stress programs (constant shadowed by a later label of the same name, "
        "forward/backward symbol operands at every width boundary) + bank-crossing layouts; the per-node addresses of "
        "the label pass and of emission are recorded by wrapping pc_after/emit; non-trivial: assembles and emits bytes")
PROVED_NOTE = ("proved: phase agreement (a successful assembly emitted every node at its label-pass address, end included); "
               "label/.incbin symbols are bound to the label-pass address; predicted size = emitted size for every node "
               "kind in one resolver state; failure instead of shifted addresses; the model satisfies the run-time trace oracle (STrace) "
               "for every node list and start state (label value = address of its node at emission = address of the next emitting "
               "node before any position move). ON SOURCE TEXT (Properties/C02Text.v): `*=<org>` / `name:` / `.<dl|dw|db> name` in either order "
               "assembles (scanner, parser, generation, passes) to the little-endian address of the label and lists (name, address); "
               "identifier lexing in statement context characterised exactly (a word whose first three letters are a mnemonic followed "
               "by blank/newline/`.` is an OPCODE). Correspondence-only: nodes.py/program.py "
               "compute what the model computes; uniqueness of a label inside one scope is not enforced by the code "
               "(a duplicate keeps the last value) and is outside the statement proved.")
MANIFEST = {
    "text": ("Coq theorems over the Gallina model of Program.resolve_labels/emit and every node's pc_after/emit (all "
             "programs, by induction over the node list); model tied to the code by differential runs of generated "
             "programs; oracle on the implementation's own per-node trace: each label's value = the run address at which "
             "its node and the next emitted byte are emitted, label-pass address = emission address for every node."),
    "note": "Trusted: Coq kernel/vm_compute, harness (method wrappers), table translator, CPython semantics as modelled. No axioms.",
    "technique": "Coq proof (induction over node lists) + differential correspondence with vm_compute + trace oracle",
}

WIDTH_EDGE = [0xFF, 0x100, 0xFFFF, 0x10000]
progen_features_with_files = {"blocks", "scopes", "macros", "if", "for", "reloc", "data", "ascii", "symbols", "files"}


def cases(ctx):
    rng, tier = ctx["rng"], ctx["tier"]
    out = []
    n = 250 if tier == "quick" else 4000
    for _ in range(n):
        c, _tree = core.prog_case(rng, "generated", spec={"t": "trace"}, trace=True,
                                    features=progen_features_with_files)
        out.append(c)
    # width-inference stress: the shadowing pattern (must fail, never shift), and boundary operands
    for rom, org in (("low", 0x008000), ("high", 0x400000)):
        for v in WIDTH_EDGE:
            for mn in ("lda", "sta", "adc"):
                out.append({"kind": "shadow", "rom": rom, "trace": True, "spec": {"t": "trace"},
                            "src": f"*={org:#08x}\nc := {v:#x}\n{{\n{mn} c\nc:\n}}\nl2:\n.dl l2\n"})
                out.append({"kind": "backward", "rom": rom, "trace": True, "spec": {"t": "trace"},
                            "src": f"*={org:#08x}\nc := {v:#x}\n{mn} c\nl2:\n{mn}.l l3\n.dl l2\nl3:\n"})
                out.append({"kind": "forward-unsized", "rom": rom, "spec": {"t": "reject"},
                            "src": f"*={org:#08x}\n{mn} fwd\nfwd:\n.dl fwd\n"})
        # *= through a constant that a later label shadows
        out.append({"kind": "shadow-org", "rom": rom, "spec": {"t": "reject"},
                    "src": f"*={org:#08x}\nc := {org + 0x100:#x}\n{{\n*= c\nnop\nc:\n}}\nl2:\n.dl l2\n"})
    # a macro application that expands to nothing, then named scopes with equal label names: every label and every
    # exported scope.name is still the address of ITS definition
    for rom, org in (("low", 0x028000), ("high", 0x410000)):
        for pre in (".macro zz_tr(v) {\n.if DEBUG {\n.db v\n}\n}\nDEBUG := 0\nzz_tr(1)\n", ".macro zz_tr() {\n}\nnop\nzz_tr()\nzz_tr()\n",
                    ".macro zz_tr(v) {\n.if v {\nnop\nzz_tr(v - 1)\n}\n}\nzz_tr(2)\n"):
            out.append({"kind": "empty-expansion", "rom": rom, "trace": True, "spec": {"t": "trace"},
                        "src": (f"*={org:#08x}\n{pre}.scope menu {{\nstart:\nnop\nlda.w #0x1234\n}}\n.scope game {{\nrts\nstart:\n.db 0xB2\n}}\n"
                                "{\nstart:\nnop\n.dl start\n}\njsr.w menu.start\njsr.w game.start\n.dl menu.start, game.start\n")})
        # an unsized operand whose symbol has another width in the label pass than at emission: refused (phase error),
        # in plain ROM code and inside a routine relocated to ROM or to RAM alike - never shifted labels
        for reloc in ("", "@=0x7e2000\n", f"@={org + 0x4000:#08x}\n"):
            for mn in ("lda", "sta", "inc"):
                out.append({"kind": "phase-disagreement", "rom": rom, "spec": {"t": "reject"},
                            "src": (f"*={org:#08x}\ncounter := 0x10\n{reloc}{{\n{mn} counter\ntick_done:\nrts\ncounter = 0x7e2100\n}}\n"
                                    f"ram_code_end:\n*={org + 0x100:#08x}\nhook:\n.dl tick_done, ram_code_end, hook\n".replace("tick_done, ", ""))})
    # the same file included in several scopes (blocks, applications of one macro, loop iterations): each copy's start and
    # size symbols belong to the scope the .incbin stands in, every reference sees ITS copy
    for rom, org in (("low", 0x018000), ("high", 0x410000)):
        blob = [0x11, 0x22, 0x33]
        data = ".db " + ", ".join(str(b) for b in blob) + "\n"
        for wname, src, twin in (
                ("blocks", "{\nnop\n.incbin 'f.bin'\n.dl f_bin\n.db f_bin__size\n}\n{\n.incbin 'f.bin'\n.dl f_bin\n}\n",
                 "{\nnop\nzz_a:\n" + data + ".dl zz_a\n.db 3\n}\n{\nzz_b:\n" + data + ".dl zz_b\n}\n"),
                ("macro", ".macro zz_te(k) {\n.db k\n.incbin 'f.bin'\n.pointer f_bin\n.dw f_bin & 0xFFFF\n}\nzz_te(1)\nnop\nzz_te(2)\n",
                 "{\n.db 1\nzz_a:\n" + data + ".pointer zz_a\n.dw zz_a & 0xFFFF\n}\nnop\n{\n.db 2\nzz_b:\n" + data + ".pointer zz_b\n.dw zz_b & 0xFFFF\n}\n"),
                ("scope-export", ".scope zz_s1 {\n.incbin 'f.bin'\n}\n.scope zz_s2 {\nnop\n.incbin 'f.bin'\n}\n.dl zz_s1.f_bin, zz_s2.f_bin\n",
                 "zz_a:\n" + data + "nop\nzz_b:\n" + data + ".dl zz_a, zz_b\n")):
            out.append({"kind": f"incbin-per-scope:{wname}", "rom": rom, "files": {"f.bin": blob}, "spec": {"t": "twin", "labels": False},
                        "src": f"*={org:#08x}\n{src}", "twin_src": f"*={org:#08x}\n{twin}"})
    # a name reused in an inner scope: every use, and the exported scope.name, is the address of ITS definition
    for rom, org in (("low", 0x028000), ("high", 0x410000)):
        for outer_wrap in (".scope menu {\n%s}\n.dl menu.x\n", "{\n%s}\n", "%s"):
            for inner_wrap in ("{\n%s}\n", ".macro zz_in() {\n%s}\nzz_in()\n", ".scope sub {\n%s}\n.dl sub.NAME\n"):
                for first in (True, False):
                    def prog(name):
                        inner = inner_wrap.replace("NAME", name) % f"nop\n{name}:\n.db 1\n.dl {name}\n"
                        body = ("x:\nnop\n" + inner) if first else (inner + "nop\nx:\n")
                        return f"*={org:#08x}\n" + outer_wrap % (body + ".dl x\njmp.w x\n")
                    out.append({"kind": "reuse-in-scope", "rom": rom, "src": prog("x"), "twin_src": prog("yy"),
                                "spec": {"t": "twin", "labels": False}})
    # an included patch in the middle of a run does not move what follows it
    ips = list(b"PATCH" + (0x20000).to_bytes(3, "big") + (4).to_bytes(2, "big") + b"\xde\xad\xbe\xef" + b"EOF")
    for rom, org in (("low", 0x018000), ("high", 0x410000)):
        for spec in ({"t": "trace"}, {"t": "blocks", "high": rom == "high"}):
            out.append({"kind": "ips-in-run", "rom": rom, "trace": True, "spec": spec, "files": {"other.ips": ips},
                        "src": f"*={org:#08x}\nstart:\n.db 0xA1\nlda.w 0x1234\nmid:\n.db 0xA2\njsr.w after\n"
                               ".include_ips 'other.ips', 0\nafter:\n.db 0xA3\nrts\nlast:\n.db 0xA4\n.dl start\n.dl last\n"})
    # bank crossing
    for rom, org in (("low", 0x00FFFD), ("low", 0x80FFFE), ("high", 0x40FFFC), ("high", 0xC1FFFF)):
        out.append({"kind": "bank-cross", "rom": rom, "trace": True, "spec": {"t": "trace"},
                    "src": f"*={org:#08x}\na1:\nlda.l a2\na2:\n.dw a1, a2, a3\na3:\njmp.l a1\na4:\n.dl a4\n"})
    # one statement carrying over two bank ends: the label after it must still be where the next byte goes
    big = (("low", 0x00C000, 0xC000), ("low", 0x808000, 0x10000), ("high", 0x40F000, 0x11000))
    for rom, org, length in (big if tier == "thorough" else big[:1]):
        blob = [(i * 13) & 0xFF for i in range(length)]
        for spec in ({"t": "trace"}, {"t": "blocks", "high": rom == "high"}):
            out.append({"kind": "double-cross", "rom": rom, "trace": True, "spec": spec, "files": {"big.bin": blob},
                        "src": f"*={org:#08x}\nbefore:\n.incbin 'big.bin'\nafter:\n.dl after, before\nnop\n"})
    return core.mark_must_assemble(out, {'incbin-per-scope', 'bank-cross', 'ips-in-run', 'empty-expansion', 'double-cross', 'reuse-in-scope', 'backward'})
