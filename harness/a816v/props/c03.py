"""C03 — output holds exactly the emitted bytes at their mapped ROM offsets."""
from __future__ import annotations

from .. import core
from ..core import HEADER, CASE_TYPE, CHECK, MODEL_VIEW, SHARD, CASE_TIMEOUT, observe, coq_term, nontrivial_key, tags  # noqa: F401

ID = "C03"
THEOREMS = ["C03_conservation", "C03_offsets_step", "C03_star_eq", "C03_at_eq_no_flush", "C03_run_conservation",
            "C03_run_offsets", "C03_writer_protocol", "C03_writer_protocol_offsets", "C03_writer_protocol_initial",
            "C03_ram_org", "C03_hirom_star_eq", "C03_offsets_step_sub",
            "C03_user_bus_lookup", "C03_user_offset_physical", "C03_user_offsets_oracle",
            "C03_ram_runs_oracle", "C03_ram_runs_oracle_codepos", "C03_user_ram_runs_oracle"]
RULE = ("generated programs with frequent *= / @= moves (ROM and RAM targets), bank crossings, LoROM/HiROM/low2 and "
        "user .map configurations; the emission trace (run address, resolver.pc, bytes per node) is recorded by wrapping "
        "emit; non-trivial: assembles and emits bytes; distinct by source text")
PROVED_NOTE = ("proved: conservation of bytes per step and over whole runs (writer blocks + open block = all node bytes in "
               "order); whole runs of non-position nodes stay in step across any number of bank ends; the in-step invariant (file offset of the next byte = offset the "
               "mapping assigns to the run address) is preserved by every non-position node incl. bank crossings (uses the "
               "C04 advance law) and re-established by *=; @= does not flush. THE WHOLE PROTOCOL: for every node list and start "
               "state the model's writer blocks ARE the independent cutter (Oracle/Coreo.v cut_spec, the very function the run-time "
               "oracle applies to the implementation's trace) applied to the model's emission trace, offsets are contiguous (pcs_ok), "
               "and on the built-in buses every unrelocated ROM byte lies at the offset of its run address (offsets_ok) for programs "
               "that begin with *= and emit no unrelocated bytes at RAM addresses. Correspondence-only: that program.py computes "
               "what the model computes.")
MANIFEST = {
    "text": ("Coq theorems over the Gallina model of Program.emit / Resolver.set_position (all programs: step invariants); "
             "model tied to the code by differential runs; oracle on the implementation's own trace: writer calls = the "
             "independent cutter applied to the per-node bytes, every unrelocated ROM byte at the textbook LoROM/HiROM "
             "offset of its run address, offsets contiguous."),
    "note": "Trusted: Coq kernel/vm_compute, harness (method wrappers), table translator, CPython semantics as modelled. No axioms.",
    "technique": "Coq proof (step invariants, model satisfies the writer-protocol oracle) + differential correspondence with vm_compute + trace oracle",
}

MAPS = [
    # (.map lines, an in-window origin, a RAM / other address, the declared bank ranges (first, last, window, writable))
    (".map identifier=1 bank_range=0x00,0x3f addr_range=0x8000,0xffff mask=0x8000\n"
     ".map identifier=2 bank_range=0x7e,0x7f addr_range=0,0xffff mask=0x10000 writable=1\n", 0x018000, 0x7E0000,
     [(0x00, 0x3F, 0x8000, False), (0x7E, 0x7F, 0x10000, True)]),
    (".map identifier=1 bank_range=0x40,0x6f addr_range=0,0xffff mask=0x10000 mirror_bank_range=0xc0,0xef\n"
     ".map identifier=3 bank_range=0x70,0x71 addr_range=0,0xffff mask=0x10000 writable=1\n", 0x41FFF0, 0x700000,
     [(0x40, 0x6F, 0x10000, False), (0xC0, 0xEF, 0x10000, False), (0x70, 0x71, 0x10000, True)]),
    (".map identifier=7 bank_range=0x10,0x1f addr_range=0x8000,0xffff mask=0x8000 mirror_bank_range=0x90,0x9f\n", 0x90FFF8, 0x108000,
     [(0x10, 0x1F, 0x8000, False), (0x90, 0x9F, 0x8000, False)]),
    # the HiROM system banks: a window (0x8000-0xffff) smaller than the bank size (64K) the offsets are counted in
    (".map identifier=1 bank_range=0x00,0x3f addr_range=0x8000,0xffff mask=0x10000 mirror_bank_range=0x80,0xbf\n", 0x00FFF0, 0x808000,
     [(0x00, 0x3F, 0x10000, False), (0x80, 0xBF, 0x10000, False)]),
    # attribute values written in decimal and binary
    (".map identifier=2 bank_range=64, 111 addr_range=0, 65535 mask=65536 mirror_bank_range=0b11000000,0b11101111\n"
     ".map identifier=3 bank_range=126,127 addr_range=0,65535 mask=65536 writable=1\n", 0x41FFF0, 0x7E0010,
     [(0x40, 0x6F, 0x10000, False), (0xC0, 0xEF, 0x10000, False), (0x7E, 0x7F, 0x10000, True)]),
    # save RAM declared writable AND mirrored, its window (0x0000-0x7fff) in the low half of the bank: the mirror banks are RAM too
    *[(".map identifier=1 bank_range=0x00,0x3f addr_range=0x8000,0xffff mask=0x8000\n"
       ".map identifier=2 bank_range=0x70,0x7d addr_range=0,0x7fff mask=0x8000 writable=1 mirror_bank_range=0xf0,0xfd\n", 0x018000, ram,
       [(0x00, 0x3F, 0x8000, False), (0x70, 0x7D, 0x8000, True), (0xF0, 0xFD, 0x8000, True)]) for ram in (0xF10200, 0x710010)],
    # a later declaration takes banks away from an earlier one
    (".map identifier=1 bank_range=0x00,0x7f addr_range=0x8000,0xffff mask=0x8000\n"
     ".map identifier=2 bank_range=0x20,0x2f addr_range=0,0xffff mask=0x10000\n", 0x21FFF0, 0x308000,
     [(0x00, 0x7F, 0x8000, False), (0x20, 0x2F, 0x10000, False)]),
]


def cases(ctx):
    rng, tier = ctx["rng"], ctx["tier"]
    out = []
    n = 250 if tier == "quick" else 4000
    feats = {"blocks", "scopes", "macros", "if", "for", "reloc", "data", "ascii", "symbols", "files"}
    for i in range(n):
        rom = rng.choice(["low", "low", "high", "low2"])
        c, tree = core.prog_case(rng, "generated", rom=rom, features=feats,
                                 spec={"t": "blocks", "high": rom == "high"}, trace=True)
        out.append(c)
    # dense position moves
    for i in range(60 if tier == "quick" else 800):
        rom = rng.choice(["low", "high"])
        g = core.progen.Gen(rng, rom=rom)
        lines = [f"*={g.origin():#08x}"]
        for _ in range(rng.randrange(3, 10)):
            r = rng.random()
            if r < 0.08:
                # *= to a RAM address: the output offset stays where it is (a few bytes only: the run stays in RAM)
                lines.append(f"*={rng.choice([0x7E0000, 0x7E2000, 0x7F8000, 0x7E1234]):#08x}")
            elif r < 0.25:
                lines.append(f"*={g.origin():#08x}")
            elif r < 0.4:
                lines.append(f"@={rng.choice([0x7E0000, 0x7E1234, 0x7F8000, g.origin()]):#08x}")
            elif r < 0.5:
                lines.append(f"l{len(lines)}:")
            else:
                lines.append(rng.choice(["nop", ".db 1, 2, 3", ".dw 0x1234", "lda.l 0x7e0000", ".ascii 'xy'", "rts",
                                         ".dl 0x123456", "lda #0x12", "{\nnop\n}"]))
        out.append({"kind": "moves", "rom": rom, "src": "\n".join(lines) + "\n", "trace": True,
                    "spec": {"t": "blocks", "high": rom == "high"}})
    # *= to the address just reached (after a relocation to ROM: resolver.pc is then not the storage offset)
    for rom, a, b in (("low", 0x018000, 0x028000), ("low", 0x808100, 0x038000), ("high", 0x400000, 0x410000)):
        for n in (1, 3, 16):
            data = ", ".join(str(i) for i in range(n))
            out.append({"kind": "org-after-reloc", "rom": rom, "trace": True, "spec": {"t": "blocks", "high": rom == "high"},
                        "src": f"*={a:#08x}\n.db 0xAA, 0xBB\n@={b:#08x}\nrun:\n.db {data}\nrun_end:\n*=run_end\n.db 0xCC, 0xDD\n"})
            out.append({"kind": "org-to-label", "rom": rom, "trace": True, "spec": {"t": "blocks", "high": rom == "high"},
                        "src": f"*={a:#08x}\nfirst:\n.db {data}\nsecond:\n*={b:#08x}\n.db 1\n*=second\n.db 2\n*=first\n.db 3\n"})
    # an included patch in the middle of a run: its records go out where the directive stands, the run stays one block
    def ips(records):
        out = b"PATCH"
        for off, data in records:
            out += off.to_bytes(3, "big") + len(data).to_bytes(2, "big") + bytes(data)
        return list(out + b"EOF")
    for rom, org in (("low", 0x018000), ("high", 0x410000)):
        for recs, delta in (([(0x20000, b"\xde\xad\xbe\xef")], 0), ([(0x300, b"ab"), (0x500, b"cdef")], -0x200),
                            ([(0x8002, b"\x99")], 0), ([], 0)):
            for body in (".db 0xA1\nlda.w 0x1234\nmid:\n.db 0xA2\n{INC}after:\n.db 0xA3\nrts\nlast:\n.dl mid\n.dl after\n",
                         "{INC}.db 1, 2\n", ".db 1, 2\n{INC}", ".db 1\n{INC}*=ORG2\n.db 2\n{INC}.db 3\n",
                         ".db 1\n@=0x7e0000\n.db 2\n{INC}.db 3\n"):
                src = f"*={org:#08x}\n" + body.replace("{INC}", f".include_ips 'other.ips', {delta}\n").replace("ORG2", f"{org + 0x10000:#08x}")
                out.append({"kind": "ips-in-run", "rom": rom, "trace": True, "files": {"other.ips": ips(recs)},
                            "spec": {"t": "blocks", "high": rom == "high"}, "src": src})
    # *= to RAM under each mapping: contiguous output, labels in RAM
    for rom, org in (("low", 0x018000), ("high", 0x410000), ("high", 0xC00000), ("low2", 0x808000)):
        for ram in (0x7E0000, 0x7E2000, 0x7FFF00):
            out.append({"kind": "org-to-ram", "rom": rom, "trace": True, "spec": {"t": "blocks", "high": rom == "high"},
                        "src": f"*={org:#08x}\n.db 1\n*={ram:#08x}\nvar:\n.db 2, 3\n.dl var\n*={org + 0x100:#08x}\n.db 4\n"})
            # several RAM stretches in a row (after a *= and after a @=), then ROM again: every byte stays contiguous
            out.append({"kind": "org-to-ram", "rom": rom, "trace": True, "spec": {"t": "blocks", "high": rom == "high"},
                        "src": (f"*={org:#08x}\n.db 1\n*={ram:#08x}\nram_a:\n.db 2, 3\n*={(ram & 0xFF0000) | 0x3000:#08x}\nram_b:\n.db 4, 5, 6\n"
                                f".dl ram_a, ram_b\n*={org + 0x100:#08x}\n.db 7\n@={ram:#08x}\nram_c:\n.db 8\n*={(ram & 0xFF0000) | 0x4000:#08x}\n.db 9\n.dl ram_c\n")})
    # position moves that come out of a macro body / a block / a taken branch / a loop, and a @= right behind a *= (before
    # the block's first byte): the block is stored where the *= says
    for rom, a, b, c in (("low", 0x018000, 0x028000, 0x038000), ("high", 0x410000, 0x420000, 0x430000), ("low2", 0x818000, 0x828000, 0x838000)):
        sp = {"t": "blocks", "high": rom == "high"}
        out.append({"kind": "org-in-construct", "rom": rom, "trace": True, "spec": sp,
                    "src": (f".macro zz_org(ad) {{\n*=ad\n}}\n*={a:#08x}\n.db 1\nzz_org({b:#08x})\nsecond:\n.db 2\n.dl second\n"
                            f"{{\n*={c:#08x}\n.db 3\n}}\n.if 1 {{\n*={a + 0x100:#08x}\n}}\n.db 4\n.for zz_i := 0, 2 {{\n*={b + 0x100:#08x}\n.db 5, zz_i\n}}\n")})
        out.append({"kind": "reloc-at-block-start", "rom": rom, "trace": True, "spec": sp,
                    "src": f"*={a:#08x}\n@={c:#08x}\nzz_l:\n.db 1, 2\n.dl zz_l\n*={b:#08x}\n@={a + 0x40:#08x}\nzz_m:\nnop\n.dl zz_m\n"})
        out.append({"kind": "reloc-at-block-start", "rom": rom, "trace": True, "spec": sp,
                    "src": f"@={c:#08x}\nzz_l:\n.db 1, 2\n.dl zz_l\n"})
    # bank crossing with contiguous file offsets
    for rom, org in (("low", 0x00FFFD), ("low", 0x80FFFE), ("low", 0x6EFFFF), ("high", 0x40FFFC), ("high", 0xC1FFFF)):
        out.append({"kind": "bank-cross", "rom": rom, "trace": True, "spec": {"t": "blocks", "high": rom == "high"},
                    "src": f"*={org:#08x}\n.db 1, 2, 3, 4, 5, 6, 7, 8\nlda.l 0x123456\n.ascii 'crossing'\n"})
    # one statement longer than the rest of its bank plus a whole window: what follows it is stored right behind it
    big = (("low", 0x00C000, 0xC000), ("low", 0x808000, 0x10000), ("high", 0x40F000, 0x11000), ("low2", 0x81FFF0, 0x8020))
    for rom, org, length in (big if tier == "thorough" else big[:1]):
        blob = [(i * 11 + 5) & 0xFF for i in range(length)]
        out.append({"kind": "long-statement", "rom": rom, "trace": True, "spec": {"t": "blocks", "high": rom == "high"},
                    "files": {"big.bin": blob},
                    "src": f"*={org:#08x}\n.db 0xE0\nblob:\n.incbin 'big.bin'\nafter:\n.dl after, blob\njmp.l after\n"})
    # user .map configurations
    for text, org, ram, ranges in MAPS:
        ram_is_ram = any(r[3] and r[0] <= (ram >> 16) <= r[1] for r in ranges)
        for body in ("nop\n.db 1,2,3\nl:\n.dl l\n", f"lda.w #0x1234\n@={ram:#08x}\nr:\n.dl r\n*={org + 0x20:#08x}\nrts\n",
                     # *= into the declared RAM region (`writable=1`): the output stays contiguous
                     *([f".db 1\n*={ram:#08x}\nv:\n.db 2, 3\n.dl v\n*={org + 0x40:#08x}\n.db 4\n"] if ram_is_ram else []),
                     # several statements behind a @= into the other region: each runs behind the one before
                     f".db 9\n@={ram:#08x}\n.db 1\nnop\nlda.w #0x1234\nr2:\n.dl r2\nr3:\n.dl r3\n*={org + 0x60:#08x}\nrts\n",
                     ".db 1,2,3,4,5,6,7,8,9,10,11,12,13,14,15,16,17,18\nend:\n.dl end\n"):
            # with a built-in mapping chosen first (as the front ends do) and without (the bare library entry point)
            for rom in ("low", None, "high"):
                out.append({"kind": f"user-map:{rom}", "rom": rom, "trace": True,
                            "spec": {"t": "blocks", "high": False, "user_map": True, "user_ranges": ranges},
                            "src": f"{text}*={org:#08x}\n{body}"})
    return core.mark_must_assemble(out, {'org-in-construct', 'reloc-at-block-start', 'bank-cross', 'org-to-label', 'ips-in-run', 'org-after-reloc', 'org-to-ram', 'user-map', 'moves', 'long-statement'})
