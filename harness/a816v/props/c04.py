"""C04 — bus laws.  Correspondence of Mapping/Bus/Address with Model/Bus.v, spec oracle from
Spec/BusLaws via Oracle/C04o.v, theorems Properties/C04.v (+ live-bus instantiation)."""
from __future__ import annotations

from .. import common as C
from ..obs import observe_call, obs_term

ID = "C04"
HEADER = "From A816 Require Import Oracle.C04o.\nRequire Import Run.GenBuses."
CASE_TYPE = "anycase"
CHECK = "check_any Run.GenBuses.low_rom_bus Run.GenBuses.high_rom_bus"
MODEL_VIEW = ("fun c => match c with Plain c => model_view Run.GenBuses.low_rom_bus Run.GenBuses.high_rom_bus c "
              "| Swept _ => (Err EOther, Err EOther) end")
THEOREMS = ["C04_physical", "C04_mirror", "C04_ram", "C04_unmapped", "C04_advance", "C04_advance_ram",
            "C04_add_0", "C04_add_add", "C04_map_covers", "C04_lorom", "C04_hirom",
            "C04_live_lorom", "C04_live_hirom", "C04_advance_sub", "C04_add_0_sub", "C04_add_add_sub",
            "C04_hirom_not_covers", "C04_hirom_covers_sub", "C04_hirom_advance", "C04_advance_any",
            "C04_oracle_phys", "C04_oracle_phys_model_passes", "C04_oracle_sweep_model_passes", "C04_oracle_sweep_needs_input"]
PROOF_HEADER = "From A816 Require Import Properties.C04Oracle Properties.C04."
# model-tie modules whose correspondence is part of this property's check: user-defined mappings enter through the
# `.map` statement, whose reading (numbers in decimal / 0x / 0b, attribute pairs) is the parser's
TIES = ['PARSE']
RULE = ("Address.physical and Address.__add__ on the built-in LoROM/HiROM buses (every bank x boundary "
        "offsets x boundary increments) and on randomly drawn Bus.map configurations (32K/64K windows, "
        "mirrors, RAM, overlaps); a case is non-trivial when the address is mapped; distinct by "
        "(bus, address, increment)")
PROVED_NOTE = ("proved for all Z: offset formula, mirror law, RAM/unmapped, advance, add_0, add_add for any bus "
               "with 32K/64K windows; closed forms of both built-in buses; per-run: live buses agree with the "
               "specification buses on every bank (computed). Correspondence-only: that mapping.py computes what "
               "Model/Bus.v computes.")
EXHAUSTIVE = {"quick": False, "thorough": True}


def weight(case):
    return 40 if case["kind"] == "sweep" else 1
MANIFEST = {
    "text": ("Bus laws (offset formula, mirrors, RAM/unmapped, advance, add_0, add_add) proved in Coq for all integers and "
             "for any bus built by Bus.map with 32K/64K windows; closed forms of both built-in buses proved; the live "
             "built-in buses are regenerated from /repo each run and shown equal to the specification buses bank by bank. "
             "The Gallina model of mapping.py is tied to the code by a correspondence run (every bank x boundary offsets x "
             "increments, random .map configurations) and an independent spec oracle evaluated on the implementation's outputs."),
    "note": ("Trusted: Coq kernel + vm_compute; table translator; correspondence harness; CPython int semantics as modelled "
             "(Z.shiftr/land/lor); hand-written Spec/BusLaws.v. No axioms (Print Assumptions: closed under the global context)."),
    "technique": "Coq proof over a Gallina model + regenerated tables + differential correspondence with vm_compute",
}


def instantiate(gen_q):
    text = (
        "Require Import Run.GenBuses.\n"
        "From A816 Require Import Spec.BusLaws Proofs.BusProofs.\n"
        "Lemma live_low_agrees : bus_agree_b Run.GenBuses.low_rom_bus lorom = true.\n"
        "Proof. vm_compute. reflexivity. Qed.\n"
        "Lemma live_high_agrees : bus_agree_b Run.GenBuses.high_rom_bus hirom = true.\n"
        "Proof. vm_compute. reflexivity. Qed.\n"
        "Definition C04_live_low := C04_live_lorom _ live_low_agrees.\n"
        "Definition C04_live_high := C04_live_hirom _ live_high_agrees.\n"
        "From A816 Require Import Proofs.CoversSub.\n"
        "Definition C04_live_high_sub := live_hirom_covers_sub _ live_high_agrees.\n"
    )
    return text, ["C04_live_low", "C04_live_high", "C04_live_high_sub"]


OFFS = [0, 1, 0x7FFF, 0x8000, 0x8001, 0xFFFE, 0xFFFF, 0x1234, 0x89AB]
INCS = [0, 1, 2, 3, 0x7FFF, 0x8000, 0x8001, 0xFFFF, 0x10000, 0x12345, 0x37FFFF, -1, -0x8000]


def _rand_bus(rng):
    steps = []
    n = rng.randint(1, 4)
    used = set()
    for i in range(n):
        ident = rng.choice(["rom", "ram", "sram", "ext", "1", "2", "a"])
        if rng.random() < 0.85:
            while ident in used:
                ident += rng.choice("xyz")
        used.add(ident)
        lo = rng.randrange(0, 0xF0)
        hi = lo + rng.choice([0, 1, 3, 0x0F, 0x3F])
        mask = rng.choice([0x8000, 0x10000])   # the property's 32K/64K windows only
        # `.map writable=<n>` hands the integer literal through as it is: anything that is not the object False
        # (True, 1, 0, 2) denotes RAM
        writable = rng.choice([False, False, False, False, False, True, 1, 0, 2])
        mirror = None
        if rng.random() < 0.5:
            mlo = rng.randrange(0, 0xF0)
            mirror = [mlo, mlo + (hi - lo) + rng.choice([0, 0, 0, -1, 2])]
            if mirror[1] < mirror[0]:
                mirror[1] = mirror[0]
        steps.append({"id": ident, "lo": lo, "hi": min(hi, 0xFF), "mask": mask, "writable": writable, "mirror": mirror})
    return steps


def cases(ctx):
    rng, tier = ctx["rng"], ctx["tier"]
    out = []
    nb = 256
    banks = list(range(-1, 258))
    for bus in ("low", "high"):
        for bank in banks:
            offs = OFFS if tier == "thorough" else rng.sample(OFFS, 4) + [0x8000]
            for off in offs:
                a = bank * 0x10000 + off
                out.append({"kind": "phys", "bus": bus, "a": a})
                incs = INCS if tier == "thorough" else rng.sample(INCS, 3)
                for n in incs:
                    out.append({"kind": "add", "bus": bus, "a": a, "n": n})
    # exhaustive sweeps: every address of every bank under both built-in buses (thorough), two banks (quick)
    sweep_banks = range(0, 256) if tier == "thorough" else [0x01, 0x7E]
    for bus in ("low", "high"):
        for bank in sweep_banks:
            for fn in ("phys", 1):
                out.append({"kind": "sweep", "bus": bus, "bank": bank, "fn": fn})
    nrand = 60 if tier == "quick" else 600
    for _ in range(nrand):
        steps = _rand_bus(rng)
        interesting = sorted({b for s in steps for r in ([s["lo"], s["hi"]], s["mirror"] or []) for b in r} |
                             {rng.randrange(0, 256) for _ in range(3)})
        for bank in interesting:
            for delta in (0, 1, -1):
                off = rng.choice(OFFS)
                a = (bank + delta) * 0x10000 + off
                out.append({"kind": "phys", "bus": steps, "a": a})
                for n in rng.sample(INCS, 2):
                    out.append({"kind": "add", "bus": steps, "a": a, "n": n})
    return out


def _bus(desc):
    from a816 import symbols
    from a816.cpu.mapping import Bus
    if desc == "low":
        return symbols.low_rom_bus
    if desc == "high":
        return symbols.high_rom_bus
    b = Bus("user")
    for s in desc:
        b.map(s["id"], (s["lo"], s["hi"]), (0, 0xFFFF), s["mask"], writeable=s["writable"],
              mirror_bank_range=tuple(s["mirror"]) if s["mirror"] else None)
    return b


P = 2147483629


def _lorom_excluded(a):
    bank = a >> 16
    return (a & 0xFFFF) < 0x8000 and (0 <= bank <= 0x6F or 0x80 <= bank <= 0xCF)


def _sweep(case):
    from a816.cpu.mapping import Address
    bus = _bus(case["bus"])
    base = case["bank"] << 16
    fn = case["fn"]
    acc = acc_in = 0
    for i in range(65536):
        a = base + i
        try:
            if fn == "phys":
                v = Address(bus, a).physical
                code = 1 if v is None else v + 2
            else:
                code = (Address(bus, a) + fn).logical_value + 2
        except Exception:
            code = 0
        acc = (acc * 31 + (i + 1) * code) % P
        code_in = 0 if (case["bus"] == "low" and _lorom_excluded(a)) else code
        acc_in = (acc_in * 31 + (i + 1) * code_in) % P
    return {"ok": [acc, acc_in]}


def observe(case):
    from a816.cpu.mapping import Address
    if case["kind"] == "sweep":
        return _sweep(case)
    if case["kind"] == "phys":
        return observe_call(lambda: Address(_bus(case["bus"]), case["a"]).physical)
    return observe_call(lambda: (Address(_bus(case["bus"]), case["a"]) + case["n"]).logical_value)


def _busdesc(desc) -> str:
    if desc == "low":
        return "BLow"
    if desc == "high":
        return "BHigh"
    steps = ";".join(
        f"{{| ms_id := {C.cstr(s['id'])}; ms_lo := {C.z(s['lo'])}; ms_hi := {C.z(s['hi'])}; ms_mask := {C.z(s['mask'])}; "
        f"ms_writable := {C.cbool(s['writable'] is not False)}; ms_mirror := {C.copt(s['mirror'], lambda m: C.cpair(C.z(m[0]), C.z(m[1])))} |}}"
        for s in desc)
    return f"(BUser [{steps}])"


def coq_term(case, ob):
    if case["kind"] == "sweep":
        fn = "SwPhys" if case["fn"] == "phys" else f"(SwAdd {C.z(case['fn'])})"
        impl = ob.get("ok") or [-1, -1]
        return f"Swept (Sweep {C.cbool(case['bus'] == 'high')} {C.z(case['bank'])} {fn} {C.z(impl[0])} {C.z(impl[1])})"
    if case["kind"] == "phys":
        return f"Plain (CPhys {_busdesc(case['bus'])} {C.z(case['a'])} {obs_term(ob, lambda v: C.copt(v, C.z))})"
    return f"Plain (CAdd {_busdesc(case['bus'])} {C.z(case['a'])} {C.z(case['n'])} {obs_term(ob, C.z)})"


def nontrivial_key(case, ob):
    if "ok" not in ob:
        return None
    if case["kind"] == "sweep":
        return ["sweep", case["bus"], case["bank"], case["fn"]]
    return [case["kind"], case["bus"] if isinstance(case["bus"], str) else "user:" + C.short_hash(case["bus"]),
            case["a"], case.get("n")]


def tags(case, ob):
    bus = case["bus"] if isinstance(case["bus"], str) else "user"
    return [f"{case['kind']}:{bus}:{'ok' if 'ok' in ob else 'rejected'}"]


def search(ctx, evaluate):
    """After a proof/correspondence break: sweep every bank densely on the built-in buses."""
    cs = []
    for bus in ("low", "high"):
        for bank in range(0, 256):
            for off in (0, 0x7FFF, 0x8000, 0xFFFF, 0x8123):
                a = bank * 0x10000 + off
                cs.append({"kind": "phys", "bus": bus, "a": a})
                for n in (0, 1, 0x8000, 0x10000):
                    cs.append({"kind": "add", "bus": bus, "a": a, "n": n})
    for c, o, corr_ok, spec_ok in evaluate(cs):
        if not spec_ok:
            return c, o
    return None
