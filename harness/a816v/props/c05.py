"""C05 — relative branches encode the true displacement or are rejected."""
from __future__ import annotations

from ..core import HEADER, CASE_TYPE, CHECK, MODEL_VIEW, SHARD, CASE_TIMEOUT, observe, coq_term, nontrivial_key, tags  # noqa: F401

ID = "C05"
THEOREMS = ["C05_encode", "C05_reject_range", "C05_reject_target_ram", "C05_reject_source_ram",
            "C05_reject_unmapped", "C05_length", "C05_in_step",
            "C05_text_backward", "C05_text_backward_rejected", "C05_text_forward", "C05_text_forward_rejected", "C05_engine_fail",
            "C05_oracle_accept", "C05_oracle_reject_range", "C05_oracle_reject_ram", "C05_oracle_reject_far", "C05_oracle_clause"]
PROOF_HEADER = "From A816 Require Import Properties.C05 Properties.C05Text Properties.C05Oracle."

def instantiate(gen_q):
    """Per-run: the table side conditions of the text theorems hold on the live tables."""
    text = (
        "From A816 Require Import Model.Assemble Spec.BusLaws Proofs.BusProofs Proofs.ExprProofs Proofs.DataText Proofs.LabelText.\n"
        "Require Import Run.GenBuses Run.GenOpcodes Run.GenLexicon.\n"
        "Definition L05 : live := {| lv_low := Run.GenBuses.low_rom_bus; lv_high := Run.GenBuses.high_rom_bus; "
        "lv_busmap := Run.GenBuses.bus_mapping; lv_optable := Run.GenOpcodes.opcode_table; "
        "lv_prec := Run.GenOpcodes.operator_precedence; "
        "lv_lex := mk_lexicon Run.GenLexicon.mnemonics Run.GenLexicon.mnemonics_without_operand Run.GenLexicon.keywords |}.\n"
        "Definition C05_default : config := {| cf_rom := None; cf_defines := [] |}.\n"
        "Lemma L05_tables : tables_ok L05 C05_default.\n"
        "Proof. split; [vm_compute; reflexivity|split; [split; [vm_compute; reflexivity|exact I]|vm_compute; reflexivity]]. Qed.\n"
        "Definition C05_tables_live := L05_tables.\n"
    )
    return text, ["C05_tables_live"]

RULE = ("every branch mnemonic of the live table x every displacement -300..+300 (thorough) / a boundary-dense subset "
        "(quick) x forward/backward x placement (window start, middle, last bytes of the window) x {no relocation, "
        "@= to ROM, @= to RAM} x LoROM/HiROM; non-trivial: the branch is accepted and encoded; distinct by source")
PROVED_NOTE = ("proved for all addresses: ROM run address and target in the same bank, in-window, file offset in step with "
               "the run address => bytes = [opcode; (t-(p+2)) mod 256] iff -128 <= t-(p+2) <= 127, else rejected; RAM or "
               "unmapped target, RAM run address => rejected; the in-step hypothesis is the invariant proved for C03. ON SOURCE TEXT "
               "(Properties/C05Text.v): `*=<org>` / `name:` / k operand-less instruction lines / `<branch> name` (and the forward form) "
               "assembles to [op; displacement] with displacement = target - (branch address + 2) for every relative-branch row of the "
               "live table and every k in range, and is rejected (struct.error) exactly beyond -128 / +127. "
               "Correspondence-only: that cpu_65c816.RelativeJumpOpcode computes what the model computes.")
MANIFEST = {
    "text": ("Coq theorems over the Gallina model of RelativeJumpOpcode.emit + Resolver (all addresses/displacements); "
             "model tied to the code by differential runs of whole programs; oracle: expected bytes recomputed from "
             "(p, t) by the property's formula and the textbook mappings, evaluated on the implementation's output."),
    "note": "Trusted: Coq kernel/vm_compute, harness, table translator, CPython struct.pack('b') range check as modelled. No axioms.",
    "technique": "Coq proof over a Gallina model + differential correspondence with vm_compute + spec oracle",
}


# the 65c816's 8-bit relative branches (WDC data sheet): the expected opcode byte never comes from the code under test
ISA_BRANCH = {"bpl": 0x10, "bmi": 0x30, "bvc": 0x50, "bvs": 0x70, "bcc": 0x90, "bcs": 0xB0, "bne": 0xD0, "beq": 0xF0,
              "bra": 0x80}


def _branches():
    """Mnemonics the live table encodes as relative branches, each with its opcode byte from the ISA."""
    from a816.cpu import cpu_65c816 as c
    live = [mn for mn, modes in c.snes_opcode_table.items() for e in modes.values() if type(e) is c.RelativeJumpOpcode]
    return [(mn, ISA_BRANCH[mn]) for mn in live if mn in ISA_BRANCH] or [("bra", 0x80)]


def cases(ctx):
    rng, tier = ctx["rng"], ctx["tier"]
    out = []
    br = _branches()
    if tier == "thorough":
        ds = list(range(-300, 301))
    else:
        ds = sorted({-300, -200, -131, -130, -129, -128, -127, -126, -100, -64, -3, -2, -1, 0, 1, 2, 3, 64, 100, 125,
                     126, 127, 128, 129, 130, 200, 300} | {rng.randrange(-300, 301) for _ in range(12)})
    for rom in ("low", "high"):
        win_lo = 0x8000 if rom == "low" else 0x0000
        bank = 0x01 if rom == "low" else 0x41
        for d in ds:
            for placement in ("start", "middle", "end"):
                for reloc in ("none", "rom", "ram"):
                    if tier == "quick" and rng.random() < 0.55:
                        continue
                    mn, op = rng.choice(br)
                    # layout in run addresses: backward: tgt, pad(k), src   forward: src(2 bytes), pad(k), tgt
                    if d >= 0:
                        k, before = d, 0
                        span = 2 + k
                    else:
                        k = -d - 2
                        if k < 0:        # d = -1: target inside the instruction; use d=-2 layout (k=0) instead
                            continue
                        before = k
                        span = k + 2
                    if placement == "start":
                        base_off = win_lo
                    elif placement == "middle":
                        base_off = win_lo + 0x2345
                    else:
                        # the whole layout, target byte included, ends with the bank (a forward target is the byte after
                        # the padding: keep it inside the bank)
                        base_off = 0x10000 - span - 1
                    store = (bank << 16) | (win_lo + 0x100)
                    run_base = {"none": (bank << 16) | base_off,
                                "rom": ((bank + 2) << 16) | base_off,
                                "ram": 0x7E0000 | (base_off & 0x7FFF)}[reloc]
                    lines = []
                    if reloc == "none":
                        lines.append(f"*={run_base:#08x}")
                    else:
                        lines += [f"*={store:#08x}", f"@={run_base:#08x}"]
                    files = {"pad.bin": [0xEA] * k}
                    pad = [".incbin 'pad.bin'"] if k > 0 else []
                    if d >= 0:
                        lines += ["zz_src:", f"{mn} zz_tgt"] + pad + ["zz_tgt:", "nop"]
                        p, t = run_base, run_base + 2 + k
                    else:
                        lines += ["zz_tgt:"] + pad + ["zz_src:", f"{mn} zz_tgt", "nop"]
                        p, t = run_base + k, run_base
                    out.append({"kind": f"branch:{reloc}:{placement}", "rom": rom, "src": "\n".join(lines) + "\n",
                                "files": files,
                                "spec": {"t": "branch", "high": rom == "high", "p": p, "t_addr": t, "op": op,
                                         "skip": before, "reject": reloc == "ram"}})
    # branch to a RAM label from ROM code, and out of a RAM-relocated region back to ROM
    for rom in ("low", "high"):
        bank = 0x01 if rom == "low" else 0x41
        org = (bank << 16) | 0x9000
        out.append({"kind": "branch:target-ram", "rom": rom,
                    "src": f"*={org:#08x}\nbra zz_r\n@=0x7e0010\nzz_r:\nnop\n",
                    "spec": {"t": "branch", "high": rom == "high", "p": org, "t_addr": 0x7E0010, "op": 0x80, "skip": 0,
                             "reject": True}})
        out.append({"kind": "branch:source-ram", "rom": rom,
                    "src": f"*={org:#08x}\nzz_rom:\nnop\n@=0x7e0000\nbra zz_rom\n",
                    "spec": {"t": "branch", "high": rom == "high", "p": 0x7E0000, "t_addr": org, "op": 0x80, "skip": 1,
                             "reject": True}})
    # the target written as a literal address (the way a patch branches into existing code), alone and in an expression
    for rom in ("low", "high"):
        bank = 0x01 if rom == "low" else 0x41
        org = (bank << 16) | 0x9000
        for mn, op in br:
            for d, txt in ((0x10, "{t:#08x}"), (-0x20, "{t:#08x}"), (0x7F, "{t}"), (-0x80, "{t:#x}"), (0x80, "{t:#08x}"),
                           (-0x81, "{t:#08x}"), (5, "{a:#08x} + {b}"), (0, "{t:#08x}")):
                t = org + 2 + d
                text = txt.format(t=t, a=t - 3, b=3)
                out.append({"kind": "branch:literal-target", "rom": rom, "src": f"*={org:#08x}\n{mn} {text}\nnop\n",
                            "spec": {"t": "branch", "high": rom == "high", "p": org, "t_addr": t, "op": op, "skip": 0,
                                     "reject": False}})
            out.append({"kind": "branch:literal-target-reloc-ram", "rom": rom,
                        "src": f"*={org:#08x}\n@=0x7e2000\n{mn} 0x7e2010\n",
                        "spec": {"t": "branch", "high": rom == "high", "p": 0x7E2000, "t_addr": 0x7E2010, "op": op, "skip": 0,
                                 "reject": True}})
    # a branch in plain code behind a later *=, after a block that was relocated with @= (to ROM or RAM): the relocation
    # is over, the run address is the *= address again
    for rom in ("low", "high"):
        bank = 0x01 if rom == "low" else 0x41
        a, c = (bank << 16) | 0x8000, (bank << 16) | 0x9000
        for b in ((bank << 16) | 0x8020, ((bank + 1) << 16) | 0x8000, 0x7E2000, (bank << 16) | 0xF000):
            for mn, op in br:
                out.append({"kind": "branch:after-reloc", "rom": rom,
                            "src": f"*={a:#08x}\nnop\n@={b:#08x}\nzz_r:\nnop\nnop\n*={c:#08x}\nzz_tgt:\ndex\nnop\n{mn} zz_tgt\nnop\n",
                            "spec": {"t": "branch", "high": rom == "high", "p": c + 2, "t_addr": c, "op": op, "skip": 2,
                                     "reject": False}})
    # code relocated (@=) or positioned (*=) to the very first byte of the ROM image (file offset 0) after code elsewhere
    for rom in ("low", "high"):
        bank = 0x01 if rom == "low" else 0x41
        zero = 0x008000 if rom == "low" else 0x400000
        for mn, op in br:
            for mv in ("@=", "*="):
                out.append({"kind": f"branch:to-offset-zero:{mv}", "rom": rom,
                            "src": f"*={(bank << 16) | 0x8100:#08x}\nzz_first:\nnop\n{mv}{zero:#08x}\nzz_t:\ndex\n{mn} zz_t\nnop\n",
                            "spec": {"t": "branch", "high": rom == "high", "p": zero + 1, "t_addr": zero, "op": op,
                                     "skip": 2 if mv == "@=" else 1, "reject": False}})
            out.append({"kind": "branch:to-offset-zero:far", "rom": rom, "spec": {"t": "reject"},
                        "src": f"*={(bank << 16) | 0x8100:#08x}\nzz_first:\nnop\n@={zero:#08x}\n{mn} zz_first\n"})
    # under a bus the program declares itself (.map): RAM and distances are those of THAT bus
    maps = (".map identifier=1 bank_range=0x00,0x5f addr_range=0x8000,0xffff mask=0x8000\n"
            ".map identifier=2 bank_range=0x60,0x6f addr_range=0,0xffff mask=0x10000 writable=1\n"
            ".map identifier=3 bank_range=0xc0,0xff addr_range=0,0xffff mask=0x10000\n")
    for rom in (None, "low", "high"):
        for mn, op in br:
            out.append({"kind": "branch:user-map-ram-run", "rom": rom, "spec": {"t": "reject"},
                        "src": f"{maps}*=0x008000\nnop\n@=0x600000\nzz_l:\ndex\n{mn} zz_l\n"})
            out.append({"kind": "branch:user-map-ram-target", "rom": rom, "spec": {"t": "reject"},
                        "src": f"{maps}*=0x008000\n{mn} 0x600010\n"})
            out.append({"kind": "branch:user-map-far", "rom": rom, "spec": {"t": "reject"},
                        "src": f"{maps}*=0xc10010\n{mn} 0xc18020\nnop\n"})
            out.append({"kind": "branch:user-map-near", "rom": rom, "must_assemble": True, "spec": {"t": "none"},
                        "src": f"{maps}*=0xc18010\nzz_b:\nnop\n{mn} zz_b\n{mn} zz_f\nnop\nzz_f:\nrts\n"})
    # ... also in the MIRROR banks of a region declared writable and mirrored (save RAM 0x70-0x7d seen again at 0xf0-0xfd)
    maps_m = (".map identifier=1 bank_range=0x00,0x3f addr_range=0x8000,0xffff mask=0x8000\n"
              ".map identifier=2 bank_range=0x70,0x7d addr_range=0,0x7fff mask=0x8000 writable=1 mirror_bank_range=0xf0,0xfd\n")
    for rom in (None, "low", "high"):
        for mn, op in br:
            for ram in (0xF00000, 0x710100, 0xFD7F00):
                out.append({"kind": "branch:user-map-mirror-ram-run", "rom": rom, "spec": {"t": "reject"},
                            "src": f"{maps_m}*=0x008000\nnop\n@={ram:#08x}\nzz_l:\ndex\n{mn} zz_l\n"})
                out.append({"kind": "branch:user-map-mirror-ram-target", "rom": rom, "spec": {"t": "reject"},
                            "src": f"{maps_m}*=0x008000\n{mn} {ram + 0x10:#08x}\n"})
    # far targets whose distance is small only modulo the bank window / the bank / 64 KiB: out of reach, never wrapped
    for rom in ("low", "high"):
        bank = 0x01 if rom == "low" else 0x41
        lo, hi = (0x8000, 0xFFFF) if rom == "low" else (0x0000, 0xFFFF)
        far = []
        for e in (0, 2, 0x10, 0x7F, -0x10, -0x80):
            far += [((bank << 16) | 0x9000, ((bank + 1) << 16) | (0x9002 + e)),      # same offset, next bank
                    ((bank << 16) | 0x9000, ((bank - 1) << 16) | (0x9002 + e)),      # same offset, previous bank
                    ((bank << 16) | 0x9000, ((bank + 2) << 16) | (0x9002 + e)),
                    ((bank << 16) | (hi - 0x0F), (bank << 16) | (lo + 0x12 + e if lo + 0x12 + e >= lo else lo)),   # end -> start of the bank
                    ((bank << 16) | (lo + 0x10), (bank << 16) | (hi - 0x20 + (e if e <= 0 else -e)))]              # start -> end of the bank
        for (p, t), (mn, op) in zip(far, br * (len(far) // len(br) + 1)):
            out.append({"kind": "branch:far-target", "rom": rom, "src": f"*={p:#08x}\n{mn} {t:#08x}\nnop\n",
                        "spec": {"t": "branch", "high": rom == "high", "p": p, "t_addr": t, "op": op, "skip": 0,
                                 "reject": False}})
    # the run address is RAM because a *= (not a @=) put it there, the target is ROM within reach of the stale offset
    for rom in ("low", "high"):
        bank = 0x01 if rom == "low" else 0x41
        org = (bank << 16) | 0x8000
        for ram in (0x7E2000, 0x7E0000, 0x7FFFF0):
            for mn, op in br:
                out.append({"kind": "branch:source-ram-by-org", "rom": rom,
                            "src": f"*={org:#08x}\nzz_t:\nnop\nnop\nnop\n*={ram:#08x}\n{mn} zz_t\n",
                            "spec": {"t": "branch", "high": rom == "high", "p": ram, "t_addr": org, "op": op, "skip": 0,
                                     "reject": True}})
            out.append({"kind": "branch:source-ram-by-org-fwd", "rom": rom,
                        "src": f"*={org:#08x}\nnop\n*={ram:#08x}\nbra zz_f\n*={org + 3:#08x}\nzz_f:\nnop\n",
                        "spec": {"t": "branch", "high": rom == "high", "p": ram, "t_addr": org + 3, "op": 0x80, "skip": 0,
                                 "reject": True}})
    return out
