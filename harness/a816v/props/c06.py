"""C06 — expressions evaluate to their conventional integer value.

The harness generates expression TREES, renders each as text in its conventional reading
(parentheses only where the tree needs them, plus some redundant ones, random spacing), and
observes the implementation in several contexts (eval_expression_str, `.dl T`, `x := T`/`.dl x`,
`lda.w #T`, `lda.l T`).  It also exports the flat node list the real parser built.  Coq then checks
(Oracle/C06o.v): correspondence = `flat tree` is the parser's list and Model/Expr.v's
eval_expression on the implementation's list (live precedence table) predicts every observation;
oracle = the independent tree semantics Spec/ExprSem.v `eval` predicts every observation.
A second stream feeds malformed texts and hand-built node lists (model and implementation must
agree; inputs that have no value must be rejected by both)."""
from __future__ import annotations

import contextlib
import io
import itertools

from .. import common as C
from ..obs import observe_call, obs_term

ID = "C06"
HEADER = "From A816 Require Import Oracle.C06o.\nRequire Import Run.GenOpcodes."
CASE_TYPE = "case"
CHECK = "check Run.GenOpcodes.operator_precedence"
MODEL_VIEW = "model_view Run.GenOpcodes.operator_precedence"
THEOREMS = ["C06_sy", "C06_rpn", "C06_value", "C06_number", "C06_number_Z", "C06_reading_exists", "C06_unique_reading", "C06_unique_value",
            "C06_wfb", "C06_compat_reference",
            "C06_lex_tokens", "C06_lex_join", "C06_text_of_join", "C06_lex_parse", "C06_eval_strip", "C06_lex_value",
            "C06_lex_value_reading", "C06_lex_spacing", "C06_lex_numfmt"]
PROOF_HEADER = "From A816 Require Import Properties.C06 Properties.C06Lex."
# model-tie modules whose correspondence is part of this property's check (parts of the model its theorems rest on)
TIES = ['EXPRTXT']
RULE = ("expression trees (every operator pair and triple in every grouping, prefix operators in every position, "
        "random trees to depth 6, literals in three bases at boundary magnitudes, bound identifiers, random spacing, "
        "redundant parentheses) rendered in their conventional reading and evaluated by eval_expression_str and through "
        "`.dl`, `:=`, `=`, a macro argument, an `.if` condition, `lda.w #`, `lda.l` (only the contexts whose lexer accepts the operators); plus malformed texts and "
        "hand-built node lists; a case is non-trivial when the implementation produced a value; distinct by text+symbols")
PROVED_NOTE = ("proved for all trees / all integers (induction): shunting_yard of the token list of any conventionally-read "
               "tree is its postfix form, for ANY precedence table satisfying the decidable prec_compatible (discharged each "
               "run on the live OPERATOR_PRECEDENCE by computation); postfix evaluation = tree semantics, errors included; "
               "eval_expression (flat e) = eval e; eval_number of the decimal/0x(any case, leading zeros)/0b rendering of n "
               "is n; a token list has at most one conventional reading; TEXT level (Properties/C06Lex.v): any tree whose "
               "identifiers are well formed, written out with arbitrary spacing and any literal format, is lexed by the "
               "expression scanner into exactly its tokens, parsed by _parse_expression into its flat node list, and "
               "eval_expression_str of the text is the value of the tree; hence spacing, base, padding and letter case of "
               "literals do not change the result. Correspondence-only: that expression.py / scanner / parser compute what "
               "the models compute, and that the assembler contexts use that evaluator.")
EXHAUSTIVE = {"quick": False, "thorough": False}
SHARD = 250
MANIFEST = {
    "text": ("Shunting-yard correctness proved in Coq for every conventionally-read expression tree (unbounded depth, all seven "
             "binary and two prefix operators) generically in the precedence table under a decidable condition that is "
             "re-discharged on the live OPERATOR_PRECEDENCE each run; postfix evaluation proved equal to an independent tree "
             "semantics over unbounded integers (errors included); numeral rendering/eval_number round trip proved. The model of "
             "expression.py is tied to the code by a correspondence run over generated trees rendered as text and observed through "
             "eval_expression_str, .dl, :=, lda.w #, lda.l, with the parser's own node list shipped to Coq."),
    "note": ("Trusted: Coq kernel + vm_compute; table translator; correspondence harness (tree renderer, context drivers); "
             "hand-written Spec/ExprSem.v. The scanner/parser are covered by correspondence only (flat tree = parser output)."),
    "technique": "Coq proof over a Gallina model + regenerated precedence table + differential correspondence with vm_compute",
}


def instantiate(gen_q):
    text = (
        "Require Import Run.GenOpcodes.\n"
        "From A816 Require Import Spec.ExprSem Model.Expr Proofs.ExprProofs.\n"
        "Lemma live_prec_compatible : prec_compatible Run.GenOpcodes.operator_precedence = true.\n"
        "Proof. vm_compute. reflexivity. Qed.\n"
        "Definition C06_live_sy := fun e => C06_sy Run.GenOpcodes.operator_precedence e live_prec_compatible.\n"
        "Definition C06_live_value := fun ev e => C06_value Run.GenOpcodes.operator_precedence ev e live_prec_compatible.\n"
    )
    return text, ["C06_live_sy", "C06_live_value"]


# ----------------------------------------------------------------------------- trees
BINOPS = ["*", "+", "-", "<<", ">>", "&", "|"]
UNOPS = ["-", "~"]
DIRECTIVE_BIN = {"*", "+", "-", "<<", ">>", "&"}      # lex_initial knows no `|`, `~`, `/`
DIRECTIVE_UN = {"-"}
LEVEL = {"*": 1, "+": 2, "-": 2, "<<": 3, ">>": 3, "&": 4, "|": 5}
BOP = {"*": "OMul", "+": "OAdd", "-": "OSub", "<<": "OShl", ">>": "OShr", "&": "OAnd", "|": "OOr"}
UOP = {"-": "ONeg", "~": "ONot"}
BOUNDARY = [0, 1, 0x7F, 0x80, 0xFF, 0x100, 0xFFFF, 0x10000, 0xFFFFFFFF, 2**32, 2**40]
NAMES = ["a", "b", "c", "x1", "y2", "foo", "Bar", "BAZ", "_t", "a_b", "val9", "Q", "lda_", "adcx", "an", "o", "zz",
         "Label1", "_", "__x", "nopnop"]
DOTTED = ["sc.v", "A.b_c", "n1.n2"]
RESULT = "res_out_"


def level(t):
    return LEVEL[t[1]] if t[0] == "bin" else 0


def pyeval(t, env):
    """Only used to SHAPE inputs (bound shift counts, keep most `~` operands in range).  Never an oracle."""
    k = t[0]
    if k == "num":
        return t[2]
    if k == "id":
        return env.get(t[1])
    if k == "par":
        return pyeval(t[1], env)
    if k == "un":
        v = pyeval(t[2], env)
        if v is None:
            return None
        if t[1] == "-":
            return -v
        bl = v.bit_length()
        for w in (8, 16, 32):
            if bl <= w:
                return ~v & ((1 << w) - 1)
        return None
    a, b = pyeval(t[2], env), pyeval(t[3], env)
    if a is None or b is None:
        return None
    o = t[1]
    if o in ("<<", ">>"):
        if b < 0 or b > 4096:
            return None
        return a << b if o == "<<" else a >> b
    return {"*": a * b, "+": a + b, "-": a - b, "&": a & b, "|": a | b}[o]


def fix(t, rng, extra=0.0):
    """Insert the parentheses the conventional reading needs (and a few redundant ones)."""
    k = t[0]
    if k in ("num", "id"):
        r = t
    elif k == "par":
        r = ("par", fix(t[1], rng, extra))
    elif k == "un":
        a = fix(t[2], rng, extra)
        r = ("un", t[1], a if level(a) == 0 else ("par", a))
    else:
        o = t[1]
        a, b = fix(t[2], rng, extra), fix(t[3], rng, extra)
        if level(a) > LEVEL[o]:
            a = ("par", a)
        if level(b) >= LEVEL[o]:
            b = ("par", b)
        r = ("bin", o, a, b)
    if extra and rng.random() < extra:
        r = ("par", r)
    return r


def tokens_of(t):
    k = t[0]
    if k == "num":
        return [num_text(t)]
    if k == "id":
        return [t[1]]
    if k == "par":
        return ["("] + tokens_of(t[1]) + [")"]
    if k == "un":
        return [t[1]] + tokens_of(t[2])
    return tokens_of(t[2]) + [t[1]] + tokens_of(t[3])


def num_text(t):
    fmt, n = t[1], t[2]
    if fmt[0] == "dec":
        return str(n)
    if fmt[0] == "bin":
        return "0b" + "0" * fmt[1] + format(n, "b")
    ds = format(n, "x")
    ups = list(fmt[2]) + [False] * len(ds)
    return "0x" + "0" * fmt[1] + "".join(c.upper() if u else c for c, u in zip(ds, ups))


def render(t, rng, spacing=True):
    toks = tokens_of(t)
    if not spacing:
        return "".join(toks)
    mode = rng.choice(["none", "one", "rand", "rand"])
    out = []
    for i, tk in enumerate(toks):
        if i:
            out.append({"none": "", "one": " "}.get(mode, " " * rng.choice([0, 0, 1, 1, 2, 3])))
        out.append(tk)
    lead = " " * rng.choice([0, 0, 0, 1, 2]) if mode == "rand" else ""
    trail = " " * rng.choice([0, 0, 0, 1, 3]) if mode == "rand" else ""
    return lead + "".join(out) + trail


def ops_of(t):
    k = t[0]
    if k in ("num", "id"):
        return set()
    if k == "par":
        return ops_of(t[1])
    if k == "un":
        return {"u" + t[1]} | ops_of(t[2])
    return {t[1]} | ops_of(t[2]) | ops_of(t[3])


def ids_of(t):
    k = t[0]
    if k == "id":
        return {t[1]}
    if k == "num":
        return set()
    if k == "par":
        return ids_of(t[1])
    if k == "un":
        return ids_of(t[2])
    return ids_of(t[2]) | ids_of(t[3])


def directive_ok(t):
    ops = ops_of(t)
    return all((o[1:] in DIRECTIVE_UN) if o.startswith("u") else (o in DIRECTIVE_BIN) for o in ops) \
        and not any("." in i for i in ids_of(t))


def rand_fmt(rng, n):
    r = rng.random()
    if r < 0.45:
        return ("dec",)
    if r < 0.85:
        nd = len(format(n, "x"))
        style = rng.choice(["lower", "upper", "mixed"])
        ups = [style == "upper" if style != "mixed" else rng.random() < 0.5 for _ in range(nd)]
        return ("hex", rng.choice([0, 0, 0, 1, 2, 4]), ups)
    return ("bin", rng.choice([0, 0, 1, 3]))


def rand_value(rng):
    r = rng.random()
    if r < 0.35:
        return rng.choice(BOUNDARY)
    if r < 0.7:
        return rng.randrange(0, 20)
    if r < 0.9:
        return rng.randrange(0, 1 << rng.choice([8, 16, 24, 32]))
    return rng.choice(BOUNDARY) + rng.choice([-1, 1, 2]) if rng.random() < 0.5 else rng.randrange(0, 1 << 44)


def leaf(rng, env, names, small=False):
    if names and rng.random() < 0.3:
        name = rng.choice(names)
        if name not in env:
            v = rand_value(rng)
            env[name] = -v if rng.random() < 0.25 else v
        if not small or 0 <= env[name] <= 40:
            return ("id", name)
    n = rng.randrange(0, 34) if small else max(0, rand_value(rng))
    return ("num", rand_fmt(rng, n), n)


def rand_tree(rng, depth, env, names, binops, unops):
    if depth <= 0 or rng.random() < 0.18:
        return leaf(rng, env, names)
    r = rng.random()
    if r < 0.2 and unops:
        o = rng.choice(unops)
        a = rand_tree(rng, depth - 1, env, names, binops, unops)
        t = ("un", o, a)
        if o == "~":
            v = pyeval(a, env)
            if v is not None and v.bit_length() > 32 and rng.random() < 0.9:
                t = ("un", o, ("bin", "&", a, ("num", ("hex", 0, [True] * 8), rng.choice([0xFF, 0xFFFF, 0xFFFFFFFF]))))
        return t
    if r < 0.27:
        return ("par", rand_tree(rng, depth - 1, env, names, binops, unops))
    o = rng.choice(binops)
    a = rand_tree(rng, depth - 1, env, names, binops, unops)
    b = rand_tree(rng, depth - 1, env, names, binops, unops)
    if o in ("<<", ">>"):
        v = pyeval(b, env)
        if v is None or v > 70 or (v < 0 and rng.random() < 0.9) or v < -3:
            b = leaf(rng, env, names, small=True)
    return ("bin", o, a, b)


def mk_leaves(rng, env, n):
    return [leaf(rng, env, ["a", "b", "c", "foo", "_t"]) for _ in range(n)]


def shapes(n):
    """All binary tree shapes with n leaves, as nested tuples of leaf indices / ('n', l, r)."""
    def go(lo, hi):
        if hi - lo == 1:
            return [lo]
        out = []
        for m in range(lo + 1, hi):
            for l in go(lo, m):
                for r in go(m, hi):
                    out.append((l, r))
        return out
    return go(0, n)


def build_shape(shape, ops, leaves):
    """ops[i] sits between leaf i and leaf i+1; the shape decides the grouping."""
    def go(s):
        if isinstance(s, int):
            return leaves[s], s, s
        (l, llo, lhi), (r, rlo, rhi) = go(s[0]), go(s[1])
        return ("bin", ops[lhi], l, r), llo, rhi
    return go(shape)[0]


def tame(t, env, rng):
    """Make shift counts small so that neither side builds astronomically large integers."""
    k = t[0]
    if k in ("num", "id"):
        return t
    if k == "par":
        return ("par", tame(t[1], env, rng))
    if k == "un":
        return ("un", t[1], tame(t[2], env, rng))
    a, b = tame(t[2], env, rng), tame(t[3], env, rng)
    if t[1] in ("<<", ">>"):
        v = pyeval(b, env)
        if v is None or not (-3 <= v <= 70):
            n = rng.randrange(0, 34)
            b = ("num", rand_fmt(rng, n), n)
    return ("bin", t[1], a, b)


def _group_then_operator(text: str) -> bool:
    t = text.lstrip(" ")
    depth = 0
    for i, ch in enumerate(t):
        if ch == "(":
            depth += 1
        elif ch == ")":
            depth -= 1
            if depth == 0:
                rest = t[i + 1:].lstrip(" ")
                return bool(rest) and rest[0] in "+-*&|<>"
    return False


def tree_case(rng, tree, env, kind, extra=0.0, spacing=True):
    tree = fix(tree, rng, extra)
    env = {k: v for k, v in env.items() if k in ids_of(tree)}
    text = render(tree, rng, spacing)
    ctxs = ["str", "imm"]
    if not text.lstrip(" ").startswith("(") or _group_then_operator(text):
        # a non-immediate operand that begins with a parenthesised group is a plain expression (not an indirection)
        # exactly when an operator follows the group: `lda.l (1+2)*3`
        ctxs.append("long")
    if directive_ok(tree):
        ctxs += ["dl", "assign", "sym", "marg", "ifz"]
    if any("." in i for i in ids_of(tree)):
        ctxs = ["str"]
    return {"kind": "tree", "stream": kind, "tree": tree, "env": env, "text": text, "ctxs": ctxs}


def cases(ctx):
    rng, tier = ctx["rng"], ctx["tier"]
    thorough = tier == "thorough"
    out = []

    # 1. literals: every boundary magnitude (and neighbours) in every base / letter case / padding
    for n in sorted(set(BOUNDARY + [b + d for b in BOUNDARY for d in (-1, 1) if b + d >= 0] + [9, 10, 15, 16, 0xABCDEF, 0xabcdef12, 10**12])):
        nd = len(format(n, "x"))
        fmts = [("dec",), ("hex", 0, []), ("hex", 0, [True] * nd), ("hex", 2, [i % 2 == 0 for i in range(nd)]),
                ("hex", 1, [rng.random() < 0.5 for _ in range(nd)]), ("bin", 0), ("bin", 3)]
        for f in fmts:
            out.append(tree_case(rng, ("num", f, n), {}, "literal"))
    for name in NAMES + DOTTED:
        for v in (0, 5, -7, 2**33):
            out.append(tree_case(rng, ("id", name), {name: v}, "identifier"))

    # 2. prefix operators in every position, stacked
    for us in itertools.chain(itertools.product(UNOPS, repeat=1), itertools.product(UNOPS, repeat=2),
                              itertools.product(UNOPS, repeat=3)):
        for _ in range(2):
            env = {}
            t = mk_leaves(rng, env, 1)[0]
            for u in reversed(us):
                t = ("un", u, t)
            out.append(tree_case(rng, t, env, "prefix"))
    for u in UNOPS:
        for o in BINOPS:
            for pos in range(3):
                env = {}
                a, b = mk_leaves(rng, env, 2)
                t = [("bin", o, ("un", u, a), b), ("bin", o, a, ("un", u, b)), ("un", u, ("bin", o, a, b))][pos]
                out.append(tree_case(rng, tame(t, env, rng), env, "prefix-binary"))

    # 3. every operator pair and triple in every grouping
    for n_ops in (2, 3):
        shs = shapes(n_ops + 1)
        for ops in itertools.product(BINOPS, repeat=n_ops):
            for sh in shs:
                if n_ops == 3 and not thorough and rng.random() < 0.45:
                    continue
                env = {}
                t = build_shape(sh, ops, mk_leaves(rng, env, n_ops + 1))
                out.append(tree_case(rng, tame(t, env, rng), env, f"ops{n_ops}", extra=0.03))

    # 4. random trees
    n_rand = 40000 if thorough else 2900
    for i in range(n_rand):
        env = {}
        if i % 2 == 0:
            binops, unops, names = BINOPS, UNOPS, NAMES + (DOTTED if i % 10 == 0 else [])
        else:
            binops, unops, names = sorted(DIRECTIVE_BIN), ["-"], NAMES
        t = rand_tree(rng, rng.choice([1, 2, 3, 3, 4, 4, 5, 6]), env, names, binops, unops)
        out.append(tree_case(rng, t, env, "random", extra=0.06))

    # 5. trees without a value: the first error in left-to-right order must reject everywhere
    n_err = 1500 if thorough else 150
    for i in range(n_err):
        env = {}
        binops = BINOPS if i % 2 == 0 else sorted(DIRECTIVE_BIN)
        unops = UNOPS if i % 2 == 0 else ["-"]
        bad = rng.choice(["undef", "negshift", "not33"] if i % 2 == 0 else ["undef", "negshift"])
        if bad == "undef":
            b = ("id", rng.choice(["undefined_", "nosuch", "q9"]))
        elif bad == "negshift":
            n = rng.randrange(1, 9)
            b = ("bin", rng.choice(["<<", ">>"]), leaf(rng, env, NAMES), ("un", "-", ("num", ("dec",), n)))
        else:
            n = rng.choice([2**32, 2**32 + 5, 2**40, 2**63])
            b = ("un", "~", ("num", rand_fmt(rng, n), n))
        t = b
        for _ in range(rng.randrange(0, 4)):
            other = rand_tree(rng, 2, env, NAMES, binops, unops)
            o = rng.choice([x for x in binops if x not in ("<<", ">>")])
            t = ("bin", o, t, other) if rng.random() < 0.5 else ("bin", o, other, t)
            if rng.random() < 0.2:
                t = ("un", "-", t)
        env.pop("undefined_", None), env.pop("nosuch", None), env.pop("q9", None)
        out.append(tree_case(rng, t, env, "error:" + bad))

    # 6. malformed texts (through the real lexer + parser) and hand-built node lists
    texts = [("(1+2", True), ("((1)", True), ("1+", True), ("1 + 2 *", True), ("-", True), ("~", True), ("", True), ("   ", True),
             ("()", True), ("1 + + 2", False), ("* 3", True), ("1 + (2 * )", True), ("(", True), (")", True), ("1 << ", True),
             ("0x", True), ("0b", True), ("1 + 0x", True), ("0b2", False), ("1+2)", False), ("1 2", False), ("12abc", False),
             ("1 / 2", True), ("4 / 2", True), ("1 ~ 2", True), ("0o17", True), ("a b", False), ("0X1F", False), ("007", False)]
    for tx, mr in texts:
        out.append({"kind": "badtext", "text": tx, "env": {"a": 1, "b": 2}, "must_reject": mr})
    n_raw = 3000 if thorough else 330
    pool = ([("Term", "NUMBER", s) for s in ("0", "1", "2", "7", "0x10", "0b101", "0xa", "0x", "12z", "")]
            + [("Term", "IDENTIFIER", s) for s in ("a", "b", "nosuch")]
            + [("BinOp", "OPERATOR", s) for s in BINOPS + ["/", "%", "^", "~", "==", "("]]
            + [("UnaryOp", "OPERATOR", s) for s in ("-", "~", "+")]
            + [("Parenthesis", "LPAREN", "("), ("Parenthesis", "RPAREN", ")"), ("Term", "BOOLEAN", "True")])
    fixed = [([("Term", "NUMBER", "1"), ("BinOp", "OPERATOR", "+"), ("Term", "NUMBER", "2"), ("Parenthesis", "RPAREN", ")")], True),
             ([("Parenthesis", "RPAREN", ")")], True),
             ([("Term", "NUMBER", "1"), ("BinOp", "OPERATOR", "+")], True),
             ([("UnaryOp", "OPERATOR", "-")], True), ([("UnaryOp", "OPERATOR", "~")], True), ([], True),
             ([("BinOp", "OPERATOR", "*"), ("Term", "NUMBER", "2")], True),
             ([("Term", "NUMBER", "1"), ("BinOp", "OPERATOR", "/"), ("Term", "NUMBER", "2")], True),
             ([("Term", "NUMBER", "1"), ("BinOp", "OPERATOR", "^"), ("Term", "NUMBER", "2")], True),
             ([("UnaryOp", "OPERATOR", "+"), ("Term", "NUMBER", "2")], True),
             ([("Parenthesis", "LPAREN", "("), ("Term", "NUMBER", "1"), ("BinOp", "OPERATOR", "+"), ("Term", "NUMBER", "2")], False),
             ([("Term", "NUMBER", "1"), ("Term", "NUMBER", "2")], False)]
    for nodes, mr in fixed:
        out.append({"kind": "raw", "nodes": nodes, "env": {"a": 1, "b": -2}, "must_reject": mr})
    def small_tree(depth):
        if depth <= 0 or rng.random() < 0.2:
            if rng.random() < 0.3:
                return ("id", rng.choice(["a", "b"]))
            n = rng.randrange(0, 17)
            return ("num", rand_fmt(rng, n), n)
        r = rng.random()
        if r < 0.2:
            return ("un", rng.choice(UNOPS), small_tree(depth - 1))
        if r < 0.3:
            return ("par", small_tree(depth - 1))
        return ("bin", rng.choice(BINOPS), small_tree(depth - 1), small_tree(depth - 1))

    def one_shift(nodes):
        # junk lists are not shaped by pyeval: keep every possible shift count small on both sides
        return sum(1 for n in nodes if n[2] in ("<<", ">>")) <= 1

    while n_raw > 0:
        if rng.random() < 0.5:
            # a valid token list with one or two mutations
            t = fix(small_tree(rng.choice([1, 2, 3])), rng)
            nodes = [node_of_text(tk) for tk in classify(tokens_of(t))]
            for _ in range(rng.choice([1, 1, 2])):
                r = rng.random()
                if r < 0.35 and nodes:
                    del nodes[rng.randrange(len(nodes))]
                elif r < 0.7:
                    nodes.insert(rng.randrange(len(nodes) + 1), rng.choice(pool))
                elif len(nodes) >= 2:
                    i, j = rng.randrange(len(nodes)), rng.randrange(len(nodes))
                    nodes[i], nodes[j] = nodes[j], nodes[i]
        else:
            nodes = [rng.choice(pool) for _ in range(rng.randrange(0, 8))]
        if not one_shift(nodes):
            continue
        n_raw -= 1
        env = {"a": 3, "b": -4}
        out.append({"kind": "raw", "nodes": [list(n) for n in nodes], "env": env, "must_reject": False})
    return out


def classify(toks):
    """Token texts of a well-formed expression -> (text, role) the way _parse_expression classifies them."""
    out = []
    prev_operand = False
    for tk in toks:
        if tk == "(":
            out.append((tk, "lp")); prev_operand = False
        elif tk == ")":
            out.append((tk, "rp")); prev_operand = True
        elif tk in BINOPS or tk in UNOPS:
            out.append((tk, "bin" if prev_operand else "un")); prev_operand = False
        else:
            out.append((tk, "id" if (tk[0].isalpha() or tk[0] == "_") else "num")); prev_operand = True
    return out


def node_of_text(tr):
    tk, role = tr
    return {"lp": ("Parenthesis", "LPAREN", tk), "rp": ("Parenthesis", "RPAREN", tk), "bin": ("BinOp", "OPERATOR", tk),
            "un": ("UnaryOp", "OPERATOR", tk), "id": ("Term", "IDENTIFIER", tk), "num": ("Term", "NUMBER", tk)}[role]


# ----------------------------------------------------------------------------- implementation drivers
class StubWriter:
    def __init__(self):
        self.blocks = []

    def begin(self):
        pass

    def end(self):
        pass

    def write_block_header(self, block, block_address):
        pass

    def write_block(self, block, block_address):
        self.blocks.append((block_address, bytes(block)))


def _quiet(f):
    import logging
    logging.disable(logging.CRITICAL)
    with contextlib.redirect_stdout(io.StringIO()), contextlib.redirect_stderr(io.StringIO()):
        return f()


def _resolver(env):
    from a816.symbols import Resolver
    r = Resolver()
    for k, v in env.items():
        r.current_scope.add_symbol(k, v)
    return r


def _export(nodes):
    return [[type(n).__name__, n.token.type.name, n.token.value] for n in nodes]


def _assemble(env, body, prefix_len, nbytes):
    """Assemble `*=0x008000`, one `name := value` line per symbol, then `body`; return the integer held by the
    `nbytes` bytes that follow `prefix_len` bytes of the single emitted block."""
    from a816.program import Program
    lines = ["*=0x008000"]
    for k, v in env.items():
        lines.append(f"{k} := {v}" if v >= 0 else f"{k} := -{-v}")
    src = "\n".join(lines + body) + "\n"
    w = StubWriter()
    err = Program().assemble_string_with_emitter(src, "m.s", w)
    if err is not None:
        raise SyntaxError(err)
    data = b"".join(b for _, b in w.blocks)
    if len(w.blocks) != 1 or len(data) != prefix_len + nbytes:
        raise AssertionError(f"unexpected blocks {w.blocks!r}")
    return int.from_bytes(data[prefix_len:], "little")


def observe(case):
    from a816.parse.ast.expression import eval_expression, eval_expression_str, expr_to_ast
    env = case["env"]
    if case["kind"] == "tree":
        text = case["text"]
        toks = _quiet(lambda: observe_call(lambda: _export(expr_to_ast(text).tokens)))
        res = {}
        for c in case["ctxs"]:
            if c == "str":
                f = lambda: eval_expression_str(text, _resolver(env))
            elif c == "dl":
                f = lambda: _assemble(env, [".dl " + text], 0, 3)
            elif c == "assign":
                f = lambda: _assemble(env, [f"{RESULT} := {text}", f".dl {RESULT}"], 0, 3)
            elif c == "sym":
                f = lambda: _assemble(env, [f"{RESULT}_s = {text}", f".dl {RESULT}_s"], 0, 3)
            elif c == "marg":
                f = lambda: _assemble(env, [".macro zz_valof(zz_a) {", ".dl zz_a", "}", f"zz_valof({text})"], 0, 3)
            elif c == "ifz":
                f = lambda: _assemble(env, [f".if {text} {{", ".db 1", "} else {", ".db 0", "}"], 0, 1)
            elif c == "imm":
                f = lambda: _assemble(env, ["lda.w #" + text], 1, 2)
            else:
                f = lambda: _assemble(env, ["lda.l " + text], 1, 3)
            res[c] = _quiet(lambda: observe_call(f))
        return {"toks": toks, "ctx": res}
    if case["kind"] == "badtext":
        text = case["text"]
        toks = _quiet(lambda: observe_call(lambda: _export(expr_to_ast(text).tokens)))
        val = _quiet(lambda: observe_call(lambda: eval_expression_str(text, _resolver(env))))
        return {"toks": toks, "val": val}
    # raw node list straight into eval_expression
    from a816.parse.ast.nodes import BinOp, ExpressionAstNode, Parenthesis, Term, UnaryOp
    from a816.parse.tokens import Token, TokenType
    cls = {"Term": Term, "BinOp": BinOp, "UnaryOp": UnaryOp, "Parenthesis": Parenthesis}

    def run():
        nodes = [cls[k](Token(TokenType[ty], v)) for k, ty, v in case["nodes"]]
        if not nodes:
            # ExpressionAstNode needs a first token for its file_info; evaluate the empty list directly
            class E:
                tokens: list = []
            return eval_expression(E(), _resolver(env))
        return eval_expression(ExpressionAstNode(nodes), _resolver(env))
    return {"toks": {"ok": case["nodes"]}, "val": _quiet(lambda: observe_call(run))}


# ----------------------------------------------------------------------------- Coq terms
KIND = {"Term": "EK_term", "BinOp": "EK_bin", "UnaryOp": "EK_un", "Parenthesis": "EK_par"}


def tree_term(t) -> str:
    k = t[0]
    if k == "num":
        f = t[1]
        ft = "FDec" if f[0] == "dec" else (f"(FBin {C.nat(f[1])})" if f[0] == "bin"
                                            else f"(FHex {C.nat(f[1])} {C.clist(f[2], C.cbool)})")
        return f"(Num {ft} {t[2]}%N)"
    if k == "id":
        return f"(Id {C.cstr(t[1])})"
    if k == "par":
        return f"(Par {tree_term(t[1])})"
    if k == "un":
        return f"(Un {UOP[t[1]]} {tree_term(t[2])})"
    return f"(Bin {BOP[t[1]]} {tree_term(t[2])} {tree_term(t[3])})"


def toks_term(nodes) -> str:
    return C.clist(nodes, lambda n: f"mk_en {KIND[n[0]]} T_{n[1]} {C.cstr(n[2])}")


def env_term(env) -> str:
    return C.clist(list(env.items()), lambda kv: C.cpair(C.cstr(kv[0]), C.z(kv[1])))


CTX = {"str": "XStr", "dl": "XDl", "assign": "XAssign", "imm": "XImm", "long": "XLong", "sym": "XSym", "marg": "XMarg",
       "ifz": "XIf"}


def coq_term(case, ob):
    if "toks" not in ob:
        toks = "OTimeout"
        ob = {"toks": {}, "ctx": {}, "val": {}}
    else:
        toks = obs_term(ob["toks"], toks_term)
    if case["kind"] == "tree":
        xs = C.clist(case["ctxs"], lambda c: f"{CTX[c]} {obs_term(ob['ctx'].get(c, {}), C.z)}")
        return f"CTree {tree_term(case['tree'])} {env_term(case['env'])} {toks} {xs}"
    return f"CBad {C.cbool(case['must_reject'])} {env_term(case['env'])} {toks} {obs_term(ob.get('val', {}), C.z)}"


def nontrivial_key(case, ob):
    if case["kind"] != "tree" or "ctx" not in ob or "ok" not in ob["ctx"].get("str", {}):
        return None
    return [case["text"], sorted(case["env"].items())]


def tags(case, ob):
    if case["kind"] == "tree":
        ok = "ok" in ob.get("ctx", {}).get("str", {})
        return [f"tree:{case['stream']}:{'value' if ok else 'rejected'}"] + [f"ctx:{c}" for c in case["ctxs"]]
    return [f"{case['kind']}:{'value' if 'ok' in ob.get('val', {}) else 'rejected'}"]


def search(ctx, evaluate):
    """After a proof/correspondence break: every operator pair in both groupings, plain leaves, no spacing."""
    import random
    rng = random.Random(6)
    cs = []
    for ops in itertools.product(BINOPS, repeat=2):
        for sh in shapes(3):
            leaves = [("num", ("dec",), n) for n in (7, 2, 3)]
            cs.append(tree_case(rng, build_shape(sh, ops, leaves), {}, "search", spacing=False))
    for us in itertools.product(UNOPS, repeat=2):
        for o in BINOPS:
            t = ("bin", o, ("un", us[0], ("un", us[1], ("num", ("dec",), 5))), ("num", ("dec",), 2))
            cs.append(tree_case(rng, t, {}, "search", spacing=False))
    for c, o, corr_ok, spec_ok in evaluate(cs):
        if not spec_ok:
            return c, o
    return None
