"""C07 — data directives emit the exact little-endian bytes of their values."""
from __future__ import annotations

from .. import core
from ..core import HEADER, CASE_TYPE, CHECK, MODEL_VIEW, SHARD, CASE_TIMEOUT, observe, coq_term, nontrivial_key, tags  # noqa: F401

ID = "C07"
THEOREMS = ["C07_data_bytes", "C07_data_decode", "C07_data_layout", "C07_ascii", "C07_incbin", "C07_le_length",
            "C07_text_scan", "C07_text_parse", "C07_text_passes", "C07_text_initial_resolver", "C07_text", "C07_text_lorom",
            "C07_text_bytes", "C07_text_layout",
            "C07_oracle_value_bytes", "C07_oracle_item_bytes", "C07_oracle_items_bytes", "C07_oracle_end_label", "C07_oracle_end_label_items"]
PROOF_HEADER = "From A816 Require Import Properties.C07 Properties.C07Text Properties.C07Oracle."


def instantiate(gen_q):
    """Per-run: the side conditions of the whole-pipeline text theorem hold on the live tables (bus, busmap,
    precedence table, lexicon), for each of the four data directives and the default configuration."""
    text = (
        "From A816 Require Import Model.Assemble Spec.BusLaws Proofs.BusProofs Proofs.ExprProofs Proofs.ExprLex "
        "Proofs.DataTextScan Proofs.DataTextParse Proofs.DataTextGen Proofs.DataText.\n"
        "Require Import Run.GenBuses Run.GenOpcodes Run.GenLexicon.\n"
        "Definition L07 : live := {| lv_low := Run.GenBuses.low_rom_bus; lv_high := Run.GenBuses.high_rom_bus; "
        "lv_busmap := Run.GenBuses.bus_mapping; lv_optable := Run.GenOpcodes.opcode_table; "
        "lv_prec := Run.GenOpcodes.operator_precedence; "
        "lv_lex := mk_lexicon Run.GenLexicon.mnemonics Run.GenLexicon.mnemonics_without_operand Run.GenLexicon.keywords |}.\n"
        "Definition C07_default : config := {| cf_rom := None; cf_defines := [] |}.\n"
        "Lemma L07_bus : bus_agree_b (lv_low L07) lorom = true. Proof. vm_compute. reflexivity. Qed.\n"
        "Lemma L07_cfg : low_rom_config L07 C07_default. Proof. split; [vm_compute; reflexivity|exact I]. Qed.\n"
        "Lemma L07_prec : prec_compatible (lv_prec L07) = true. Proof. vm_compute. reflexivity. Qed.\n"
    )
    names = []
    for kw, codes, dk in (("db", "[100;98]", "D_db"), ("dw", "[100;119]", "D_dw"), ("dl", "[100;108]", "D_dl"),
                          ("pointer", "[112;111;105;110;116;101;114]", "D_pointer")):
        text += (f"Lemma L07_kw_{kw} : all_in kw_chars {codes} /\\ mem_str {codes} (lx_keywords (lv_lex L07)) = true /\\ "
                 f"dkind_of {codes} = Some {dk}.\nProof. vm_compute. repeat split; try reflexivity; auto 20. Qed.\n"
                 f"Definition C07_text_live_{kw} fs fname sp0 eorg org it1 rest vs := "
                 f"C07_text_lorom L07 fs C07_default fname sp0 eorg org {codes} {dk} it1 rest vs L07_bus L07_cfg L07_prec "
                 f"(proj1 L07_kw_{kw}) (proj1 (proj2 L07_kw_{kw})) (proj2 (proj2 L07_kw_{kw})).\n")
        names.append(f"C07_text_live_{kw}")
    return text, names
RULE = ("every data directive (.db .dw .dl .pointer) x list length 1-8 x boundary/negative/oversized values x literal, "
        "constant, backward and forward label operands; .ascii with non-ASCII characters; .incbin of files of length "
        "0, 1, and lengths that end exactly at / cross a bank end; each followed by a label whose value is checked. "
        "Non-trivial: the program assembles and emits bytes; distinct by source text")
PROVED_NOTE = ("WHOLE PIPELINE ON SOURCE TEXT (Properties/C07Text.v): for the text `*=<org>` newline `.<db|dw|dl|pointer> e1, e2, ...` with "
               "every expression (literals in any base/case, unary -, + - * & << >>, parentheses) written with arbitrary spacing, "
               "assemble_source (scanner, parser, code generation, three passes) yields exactly one block: the little-endian "
               "truncations of the values at the LoROM offset of the origin, and no labels; spacing and literal format do not change "
               "it; side conditions on bus, precedence table and lexicon are discharged per run on the live tables. " +
               "proved for all integers: data_bytes k v = le_bytes k (v mod 256^k) (two's complement for negatives), its "
               "decoding, its length = the pc_after advance; .ascii = characters < 128; .incbin binds the start label to "
               "the address of the first byte and name__size to the length. Correspondence-only: parsing of the "
               "expression lists (parser model is checked separately by PARSE), file reading.")
MANIFEST = {
    "text": ("Coq theorems over the Gallina model of ByteNode/WordNode/LongNode/AsciiNode/BinaryNode (all values, all list "
             "lengths); model tied to nodes.py/codegen.py by differential runs of whole programs through the real "
             "assembler; independent oracle (bytes recomputed from the directive's values by a separate little-endian "
             "spec, end label checked against the textbook LoROM/HiROM offset formula) evaluated on the implementation's output."),
    "note": "Trusted: Coq kernel/vm_compute, harness, table translator, CPython int/struct semantics as modelled. No axioms.",
    "technique": "Coq proof over a Gallina model + differential correspondence with vm_compute + spec oracle",
}

VALUES = [0, 1, -1, 0x7F, 0x80, 0xFF, 0x100, 0xFFFF, 0x10000, 0xFFFFFF, 0x1000000, -0x800000, 1 << 40, -(1 << 33) + 5,
          0x1234, 0xABCDEF, 0x12345678]
WIDTH = {"db": 1, "dw": 2, "dl": 3, "pointer": 3}


def _lit(rng, v):
    if v < 0:
        return "-" + _lit(rng, -v)
    return rng.choice([hex(v), str(v), "0x" + f"{v:X}", "0b" + bin(v)[2:]])


def _org(rng, rom):
    if rom == "high":
        return rng.choice([0x400000, 0x41F000, 0xC00010, 0xFE8000])
    return rng.choice([0x008000, 0x018123, 0x3F9000, 0x808000, 0xCE8100] if rom == "low" else [0x808000, 0x818200])


def _phys(rom, a):
    bank, off = a >> 16, a & 0xFFFF
    if rom == "high":
        return ((bank - 0x40) if bank < 0x80 else (bank - 0xC0)) * 0x10000 + off
    return ((bank if bank < 0x80 else bank - 0x80) * 0x8000) + (off - 0x8000)


def cases(ctx):
    rng, tier = ctx["rng"], ctx["tier"]
    out = []
    reps = 1 if tier == "quick" else 12
    for _ in range(reps):
        for rom in ("low", "high", "low2"):
            for kind in ("db", "dw", "dl", "pointer"):
                for n in (1, 2, 3, 5, 8):
                    org = _org(rng, rom)
                    w = WIDTH[kind]
                    consts = {"k_a": rng.choice(VALUES), "k_b": rng.choice(VALUES)}
                    vals, exprs = [], []
                    for i in range(n):
                        r = rng.random()
                        if r < 0.6:
                            v = rng.choice(VALUES)
                            vals.append(v)
                            exprs.append(_lit(rng, v))
                        elif r < 0.75:
                            nm = rng.choice(list(consts))
                            vals.append(consts[nm])
                            exprs.append(nm)
                        elif r < 0.85:
                            vals.append(org)
                            exprs.append("zz_start")
                        elif r < 0.95:
                            vals.append(org + w * n)
                            exprs.append("zz_end")
                        else:
                            v = rng.choice(VALUES[:8])
                            vals.append(v + 1)
                            exprs.append(f"{_lit(rng, v)} + 1")
                    src = (f"*={org:#08x}\nk_a := {_lit(rng, consts['k_a'])}\nk_b := {_lit(rng, consts['k_b'])}\n"
                           f"zz_start:\n.{kind} {', '.join(exprs)}\nzz_end:\n.dl zz_end, zz_start\n")
                    out.append({"kind": f"data:{kind}", "rom": rom, "src": src,
                                "spec": {"t": "data", "high": rom == "high", "org": org, "off": _phys(rom, org),
                                         "items": [("data", kind, vals)], "end": "zz_end", "tail": [None, org]}})
            # a name re-defined in the enclosing block (label or `=` symbol, before or after the directive): the
            # directive emits the value the name has in ITS scope, not the outer `:=` constant of the same name
            for kind in ("db", "dw", "dl"):
                for how in ("label-after", "symbol-after", "symbol-before", "label-before"):
                    org = _org(rng, rom)
                    w = WIDTH[kind]
                    outer, inner = rng.choice([2, 0x7F, 0x1234]), rng.choice([3, 0x80, 0xABCDE])
                    if how == "label-after":
                        body, val = f"zz_start:\n.{kind} k_a\nzz_end:\nk_a:\n", org + w
                    elif how == "label-before":
                        body, val = f"k_a:\nzz_start:\n.{kind} k_a\nzz_end:\n", org
                    elif how == "symbol-after":
                        body, val = f"zz_start:\n.{kind} k_a\nzz_end:\nk_a = {inner}\n", inner
                    else:
                        body, val = f"k_a = {inner}\nzz_start:\n.{kind} k_a\nzz_end:\n", inner
                    src = f"*={org:#08x}\nk_a := {outer}\n.scope zz_sc {{\n{body}}}\n"
                    out.append({"kind": f"shadowed:{kind}:{how}", "rom": rom, "src": src,
                                "spec": {"t": "data", "high": rom == "high", "org": org, "off": _phys(rom, org),
                                         "items": [("data", kind, [val])], "end": "zz_end"}})
            # forward / backward references inside operator expressions
            for kind, nb in (("dw", 2), ("dl", 3)):
                org = _org(rng, rom)
                n_items = 3
                end = org + nb * n_items
                src = (f"*={org:#08x}\nzz_start:\n.{kind} zz_end - zz_start, (zz_end - zz_start) * 2 + 1, zz_start + 1\nzz_end:\n.dl zz_end\n")
                out.append({"kind": f"expr-refs:{kind}", "rom": rom, "src": src,
                            "spec": {"t": "data", "high": rom == "high", "org": org, "off": _phys(rom, org),
                                     "items": [("data", kind, [end - org, (end - org) * 2 + 1, org + 1])], "end": "zz_end"}})
            # .ascii
            for text in ("", "A", "Hello, World", "caf\u00e9 \u00fc!", "\u00e9\u00e9", "tab\there", "a;b/*c*/", "[0x41]",
                         # an escaped quote (kept verbatim, backslash included) at the end / start / middle / alone; backslashes
                         "C:\\new\\tools", "%s\\n", "a\\tb\\\\c", "rock \\'n\\'", "\\'x", "I\\'m", "\\'", "\\'\\'", "a\\\\b", "\\\\\\'", "''".replace("'", ""), " lead", "trail ", "  "):
                org = _org(rng, rom)
                src = f"*={org:#08x}\nzz_start:\n.ascii '{text}'\nzz_end:\n.dl zz_end\n"
                out.append({"kind": "ascii", "rom": rom, "src": src,
                            "spec": {"t": "data", "high": rom == "high", "org": org, "off": _phys(rom, org),
                                     "items": [("ascii", text)], "end": "zz_end"}})
            # .ascii with a table active in its scope (and .text beside it): .ascii never goes through the table
            tbl = {"tbl": [("A", [0x01]), ("l", [0x02, 0x03]), ("Hel", [0x7F]), (" ", [0xFE]), ("\u00e9", [0x99])]}
            for text in ("A", "Hello, World", "All\u00e9 l", ""):
                for where in ("root", "block", "scope"):
                    org = _org(rng, rom)
                    o, c = {"root": ("", ""), "block": ("{\n", "}\n"), "scope": (".scope zz_sc {\n", "}\n")}[where]
                    src = (f"*={org:#08x}\n.table 't.tbl'\n{o}zz_start:\n.ascii '{text}'\n.text 'Al'\nzz_end:\n{c}")
                    out.append({"kind": f"ascii-with-table:{where}", "rom": rom, "src": src, "files": {"t.tbl": tbl},
                                "spec": {"t": "data", "high": rom == "high", "org": org, "off": _phys(rom, org),
                                         "items": [("ascii", text), ("data", "db", [0x01, 0x02, 0x03])],
                                         "end": "zz_end"}})
            # .incbin incl. bank-end crossings
            window_end = 0x10000
            for length, back in ((0, 0x100), (1, 0x100), (7, 7), (16, 15), (0x40, 1), (300, 0x20), (0x8000, 0x10), (70000, 0x8000 if rom != "high" else 0x9000),
                                 # sizes a tool might mistake for something else (a copier header, a whole bank)
                                 (0x1FF, 0x400), (0x200, 0x400), (0x201, 0x400), (0x8200, 0x8000 if rom != "high" else 0x9000)):
                if tier == "quick" and length > 0x8000 and rom != "low":
                    continue
                bank = {"low": 0x02, "low2": 0x82, "high": 0x42}[rom]
                org = (bank << 16) | (window_end - back)
                content = bytes((i * 7 + length) & 0xFF for i in range(length))
                src = (f"*={org:#08x}\nzz_start:\n.incbin 'blob.bin'\nzz_end:\n.dl zz_end, blob_bin, blob_bin__size\n")
                out.append({"kind": "incbin", "rom": rom, "src": src, "files": {"blob.bin": list(content)},
                            "spec": {"t": "data", "high": rom == "high", "org": org, "off": _phys(rom, org),
                                     "items": [("bin", list(content))], "end": "zz_end",
                                     "tail": [None, org, length]}})
    # the path as written names the file AND the symbols (every `/` and `.` becomes `_`): unusual but legal spellings
    for rom in ("low", "high"):
        for path, sym in (("./blob.bin", "__blob_bin"), ("gfx//tiles.bin", "gfx__tiles_bin"), ("a/./b.bin", "a___b_bin"), ("gfx/font.bin", "gfx_font_bin")):
            org = _org(rng, rom)
            content = [0x10, 0x20, 0x30, 0x40]
            src = f"*={org:#08x}\nzz_start:\n.incbin '{path}'\nzz_end:\n.dl zz_end, {sym}, {sym}__size\n"
            out.append({"kind": "incbin-path", "rom": rom, "src": src, "files": {path: content},
                        "spec": {"t": "data", "high": rom == "high", "org": org, "off": _phys(rom, org),
                                 "items": [("bin", content)], "end": "zz_end", "tail": [None, org, 4]}})
    return core.mark_must_assemble(out, {'incbin', 'data', 'ascii', 'expr-refs', 'ascii-with-table', 'shadowed'})
