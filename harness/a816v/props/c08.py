"""C08 — names resolve lexically; scopes isolate and named scopes export."""
from __future__ import annotations

from .. import core, progen
from ..core import HEADER, CASE_TYPE, CHECK, MODEL_VIEW, SHARD, CASE_TIMEOUT, observe, coq_term, nontrivial_key, tags  # noqa: F401

ID = "C08"
THEOREMS = ["C08_lookup", "C08_lookup_unique", "C08_isolated_symbol", "C08_isolated_label", "C08_isolated_outer",
            "C08_visible_here", "C08_export", "C08_wf_update", "C08_wf_append", "C08_dict_wf",
            "C08_replay", "C08_replay_initial", "C08_pass_moves",
            "C08_noninterference", "C08_noninterference_labels", "C08_zderived", "C08_renaming",
            "C08_noninterference_program", "C08_renaming_program_partial",
            "C08_passes_code_blind", "C08_noninterference_program_full", "C08_renaming_program",
            "C08_export_before_and_after", "C08_emission_keeps_symbols",
            # the printer / front-end round trip that lifts the AST-level statements to source text
            "Front_roundtrip", "Front_assemble_printed", "Front_assemble_ast_printed",
            "TextLift_renaming", "TextLift_fi_independent", "TextLift_print_canon", "TextLift_pair_canon",
            "FrontExt_roundtrip", "FrontExt_assemble_printed", "TextLift_renaming_ident", "FrontExt_include_line"]
PROOF_HEADER = "From A816 Require Import Properties.C08 Properties.FrontEnd Properties.TextLift Properties.FrontEndExt."
RULE = ("generated nestings of blocks, named scopes, macro applications and loops with backward/forward/shadowing/"
        "sibling-reuse placements, plus the full shadowing matrix (outer definition x container x inner definition x reference form, width-inferred operands included); metamorphic twins: consistent renaming of a label, insertion of an unrelated definition "
        "inside another scope (output must not change); out-of-scope references (must be rejected); references to "
        "scopename.label before and after the scope (must equal the label). Non-trivial: assembles and emits bytes")
PROVED_NOTE = ("proved: value_for = innermost enclosing definition (function vs inductive specification, with fuel "
               "sufficiency); a definition is invisible from every scope its scope does not enclose; visible in its own "
               "scope; export of every symbol of a named scope as scopename.name with the same value; well-formedness of "
               "the scope tree preserved; positional replay: for every program, code generation returns to its starting scope "
               "and the generated ScopeNode/PopScopeNode moves, replayed as a pass does, enter each created scope in creation "
               "order and return to its creator (induction over code generation); non-interference: inserting anywhere a "
               "label/constant definition of a name no expression mentions (also not as scope.name) leaves blocks, error kind and "
               "all other labels unchanged, for every node list and start state (simulation over all three passes). "
               "consistent renaming: renaming a name to a fresh one throughout (definitions, identifiers, qualified scope.name uses) "
               "leaves blocks and error kind unchanged and renames the label keys (simulation with an injective key map). Both "
               "relational theorems are proved for node lists AND lifted through code generation to whole programs (assemble_ast): "
               "insertions of definitions anywhere in the statement tree (any depth, any number, code-block arguments included), "
               "renaming throughout the program (code-block arguments included; the passes are proved blind to stored code blocks). "
               "Correspondence-only: that codegen.py / nodes.py / symbols.py compute what the model computes (twins + ASM tie)."
               " SOURCE TEXT: the front-end round trip (Front_roundtrip: printing a printable AST, scanning and parsing the text "
               "gives the AST back up to positions; Front_assemble_ast_printed: assembling the printed text gives the blocks and labels of "
               "the AST-level assembly) carries these AST-level statements to the source text of every printable program; its lexicon "
               "side condition is discharged on the lexicon regenerated from /repo in each run.")
MANIFEST = {
    "text": ("Coq theorems over the Gallina model of Scope.value_for / add_symbol / restore_scope(exports) (all scope trees); "
             "model of the whole assembler tied to the code by differential runs; oracles on the implementation: renamed and "
             "insertion twins give identical blocks, out-of-scope references are rejected, scope.name references equal the label."),
    "note": ("Rename and insertion invariance are proved at node-list and program level. Trusted: Coq kernel/vm_compute, harness, table translator. No axioms."),
    "technique": "Coq proof (lookup/isolation/export) + differential correspondence + metamorphic twins",
}


def cases(ctx):
    rng, tier = ctx["rng"], ctx["tier"]
    out = []
    n = 150 if tier == "quick" else 3000
    feats = {"blocks", "scopes", "macros", "for", "if", "data", "symbols"}
    for _ in range(n):
        rom = rng.choice(["low", "low", "high"])
        g = progen.Gen(rng, rom=rom, features=feats, max_depth=5)
        tree = g.program(rng.randrange(4, 12))
        src = progen.render(tree) + "\n"
        labels = core.all_labels(tree)
        uniq = [l for l in labels if labels.count(l) == 1]
        kind = rng.choice(["rename", "insert", "plain"])
        c = {"kind": kind, "rom": rom, "src": src, "tree_kinds": progen.count_kinds(tree)}
        if kind == "rename" and uniq:
            old = rng.choice(uniq)
            c["twin_src"] = progen.render(core.sub_tree(tree, old, "zz_renamed_" + old)) + "\n"
            c["spec"] = {"t": "twin", "labels": False}
        elif kind == "insert":
            # add an unrelated, zero-byte definition inside some block (or at top level)
            def insert(stmts, depth=0):
                blocks = [i for i, s in enumerate(stmts) if s[0] in ("block", "scope")]
                if blocks and rng.random() < 0.7:
                    i = rng.choice(blocks)
                    s = stmts[i]
                    child = s[1] if s[0] == "block" else s[2]
                    new_child = insert(child, depth + 1)
                    return stmts[:i] + [("block", new_child) if s[0] == "block" else ("scope", s[1], new_child)] + stmts[i + 1:]
                pos = rng.randrange(1 if depth == 0 else 0, len(stmts) + 1)
                extra = rng.choice([("label", "zz_unrelated"), ("assign", "zz_unrelated", "5"), ("symbol", "zz_unrelated", "7")])
                return stmts[:pos] + [extra] + stmts[pos:]
            c["twin_src"] = progen.render(insert(tree)) + "\n"
            c["spec"] = {"t": "twin", "labels": False}
        out.append(c)
    # isolation: references from outside / from a sibling must be rejected
    for rom, org in (("low", 0x008000), ("high", 0x400000)):
        for ref in (".dl inner", "lda.w inner", "lda inner", "jmp.w inner"):
            out.append({"kind": "outside-ref", "rom": rom, "spec": {"t": "reject"},
                        "src": f"*={org:#08x}\n{{\ninner:\nnop\n}}\n{ref}\n"})
            out.append({"kind": "sibling-ref", "rom": rom, "spec": {"t": "reject"},
                        "src": f"*={org:#08x}\n{{\ninner:\nnop\n}}\n{{\n{ref}\n}}\n"})
            out.append({"kind": "macro-local-ref", "rom": rom, "spec": {"t": "reject"},
                        "src": f"*={org:#08x}\n.macro mm() {{\ninner:\nnop\n}}\nmm()\n{ref}\n"})
            out.append({"kind": "loop-local-ref", "rom": rom, "spec": {"t": "reject"},
                        "src": f"*={org:#08x}\n.for i := 0, 2 {{\ninner:\nnop\n}}\n{ref}\n"})
        # sibling reuse: each block sees its own label
        out.append({"kind": "sibling-reuse", "rom": rom, "spec": {"t": "twin", "labels": False},
                    "src": f"*={org:#08x}\n{{\nsame:\n.dl same\n}}\n{{\nnop\nsame:\n.dl same\n}}\n",
                    "twin_src": f"*={org:#08x}\n{{\nfirst:\n.dl first\n}}\n{{\nnop\nsecond:\n.dl second\n}}\n"})
        # `:=` inside a block / named scope / macro body / loop body binds in THAT scope: an outer `:=` of the same name
        # is shadowed inside and untouched outside (twin: the inner name renamed)
        for wname, w in (("block", "{\n%s}\n"), ("scope", ".scope zz_as {\n%s}\n"), ("macro", ".macro zz_am() {\n%s}\nzz_am()\n"),
                         ("for", ".for zz_ai := 0, 1 {\n%s}\n"), ("nested", "{\n{\n%s}\n.db width\n}\n")):
            inner = "width := 3\n.db width\n.for zz_aj := 0, width {\n.db 0xEE\n}\n"
            out.append({"kind": f"assign-shadow:{wname}", "rom": rom, "spec": {"t": "twin", "labels": False},
                        "src": f"*={org:#08x}\nwidth := 2\n" + (w % inner) + ".db width\n.for zz_ak := 0, width {\n.db 0xDD\n}\n",
                        "twin_src": f"*={org:#08x}\nwidth := 2\n" + (w % inner.replace("width", "zz_inner_w")).replace(".db width", ".db width")
                                    + ".db width\n.for zz_ak := 0, width {\n.db 0xDD\n}\n"})
        # `:=` directly in a loop body without any nested construct, several iterations: bound anew in every iteration
        out.append({"kind": "assign-shadow:for-flat", "rom": rom, "spec": {"t": "twin", "labels": False},
                    "src": f"*={org:#08x}\nstride := 2\n.for zz_i := 0, 4 {{\nstride := 8\n.db 0x40 + zz_i * stride\n}}\n.for zz_j := 0, 3 {{\n.db 1 + zz_j * stride\n}}\n",
                    "twin_src": f"*={org:#08x}\n.db 0x40, 0x48, 0x50, 0x58\n.db 1, 3, 5\n"})
        # (a `:=` whose value uses the loop counter is refused: the counter is bound when the passes run, DESIGN S.6)
        # a named scope holding labels AND `=` symbols exports both kinds, used before and after the scope
        out.append({"kind": "export-mixed", "rom": rom, "spec": {"t": "twin", "labels": False},
                    "src": f"*={org:#08x}\n.db tail.count\n.scope tail {{\nentry:\nrts\ncount = 3\nwidth := 2\n}}\n.dl tail.entry\n.db tail.count, tail.width\n",
                    "twin_src": f"*={org:#08x}\n.db 3\nzz_e:\nrts\n.dl zz_e\n.db 3, 2\n"})
        # a `=` symbol computed from a label of its own scope, under an outer definition of the label's name that is already
        # known at expansion time: the innermost definition counts
        for outer in ("origin = 0x20\n", "origin := 0x20\n"):
            out.append({"kind": "symbol-from-inner-label", "rom": rom, "spec": {"t": "twin", "labels": False},
                        "src": f"*={org:#08x}\n{outer}{{\nnop\norigin:\nsize = origin + 3\n.dl size\n}}\n.db origin\n",
                        "twin_src": f"*={org:#08x}\n{outer}{{\nnop\nzz_o:\nzz_s = zz_o + 3\n.dl zz_s\n}}\n.db origin\n"})
        out.append({"kind": "symbol-from-inner-label", "rom": rom, "spec": {"t": "twin", "labels": False},
                    "src": f"*={org:#08x}\n.macro zz_en(base) {{\nhere:\nbase = here\nnext = base + 2\n.dl next\n}}\nzz_en(0x10)\n",
                    "twin_src": f"*={org:#08x}\n{{\nhere:\nzz_b = here\nzz_n = zz_b + 2\n.dl zz_n\n}}\n"})
        # blocks whose only labels stand inside .if bodies: the label is local to its block all the same
        blk = "{{\nlda.w #{v}\n.if 1 {{\njmp.w {n}\nnop\n{n}:\n.db 0xD1\n}}\nrts\n}}\n"
        out.append({"kind": "label-in-if-in-block", "rom": rom, "spec": {"t": "twin", "labels": False},
                    "src": f"*={org:#08x}\n" + blk.format(v=1, n="done") + "nop\n" + blk.format(v=2, n="done"),
                    "twin_src": f"*={org:#08x}\n" + blk.format(v=1, n="zz_d1") + "nop\n" + blk.format(v=2, n="zz_d2")})
        # a `=` symbol computed from the loop counter under an outer constant of the counter's name
        out.append({"kind": "symbol-from-counter", "rom": rom, "spec": {"t": "twin", "labels": False},
                    "src": f"*={org:#08x}\nstep := 4\n.for step := 0, 3 {{\noff = step * 2 + 1\n.db off, step\n}}\n.db step\n",
                    "twin_src": f"*={org:#08x}\n.db 1, 0, 3, 1, 5, 2\n.db 4\n"})
        # `.if` / `else` open no scope: a name defined in either branch belongs to the scope the .if is written in
        for cond, val in (("0", 0x20), ("1", 0x40)):
            out.append({"kind": f"if-branch-no-scope:{cond}", "rom": rom, "spec": {"t": "twin", "labels": False},
                        "src": (f"*={org:#08x}\nlimit = 0x11\n{{\n.if {cond} {{\nlimit = 0x40\n}} else {{\nlimit = 0x20\n}}\n.db limit\n}}\n.db limit\n"
                                f".scope cfg {{\n.if {cond} {{\nnop\n}} else {{\nentry:\nsize = 2\n}}\n.if {cond} {{\nentry:\nsize = 3\n}}\nrts\n}}\n.dl cfg.entry\n.db cfg.size\n"),
                        "twin_src": (f"*={org:#08x}\n.db {val}\n.db 0x11\n" + ("nop\n" if cond == "1" else "")
                                     + f"zz_e:\nrts\n.dl zz_e{' - 1' if False else ''}\n.db {3 if cond == '1' else 2}\n")})
        # names of the surroundings that BEGIN with the name of a named scope (tile_base beside `.scope tile`): they are
        # ordinary names, untouched by the scope's export (twin: those names renamed)
        def prefixed(b, s, c):
            return (f"*={org:#08x}\n{b} = 0x10\n{c} := 3\n{{\n{b} = 0x20\n{s}:\n.scope tile {{\nnop\nfirst:\nwidth = 4\n}}\n"
                    f".db {b}, tile.width, {c}\n.dl {s}, tile.first\n}}\n{s}:\n.scope tile {{\nrts\nfirst:\nwidth = 5\n}}\n"
                    f".db {b}, tile.width, {c}\n.dl {s}, tile.first\n")
        out.append({"kind": "scope-name-prefix", "rom": rom, "spec": {"t": "twin", "labels": False},
                    "src": prefixed("tile_base", "tiles", "tile_count"), "twin_src": prefixed("zz_pb", "zz_ps", "zz_pc")})
        out.append({"kind": "scope-name-prefix", "rom": rom, "spec": {"t": "twin", "labels": False},
                    "src": prefixed("tilebase", "tile2", "tile_"), "twin_src": prefixed("zz_pb", "zz_ps", "zz_pc")})
        # shadowing: the inner definition wins inside, the outer one outside
        out.append({"kind": "shadow", "rom": rom, "spec": {"t": "twin", "labels": False},
                    "src": f"*={org:#08x}\nx:\nnop\n{{\nnop\nx:\n.dl x\n}}\n.dl x\n",
                    "twin_src": f"*={org:#08x}\nx:\nnop\n{{\nnop\ny:\n.dl y\n}}\n.dl x\n"})
        # shadowing matrix: outer definition x container x inner definition (backward/forward label, '=' symbol
        # before/after the use) x reference form.  Twin 1: the inner name renamed consistently.  A reference whose
        # width is inferred (no suffix) cannot name something unknown in the label pass, so there the twin is the
        # same program with the width written out: the bytes must name the INNER definition either way.
        outer = {"label": "x:\nnop\n", "const": "x := 0x1234\n", "none": ""}
        wrap = {"block": "{\n%s}\n", "scope": ".scope sc {\n%s}\n", "macro": ".macro mm() {\n%s}\nmm()\n",
                "for": ".for i := 0, 1 {\n%s}\n", "macro2": ".macro mm() {\n%s}\nmm()\nmm()\n",
                "if-in-block": "{\n.if 1 {\n%s}\n}\n"}
        def inner(defk, ref, n):
            r = ref.replace("X", n)
            return {"back-label": f"{n}:\nnop\n{r}\n", "fwd-label": f"{r}\nnop\n{n}:\nrts\n",
                    "sym-before": f"{n} = 0x12\n{r}\n", "sym-after": f"{r}\n{n} = 0x12\n"}[defk]
        sized = [".dw X", "lda.w X", "jmp.w X", "lda.l X", ".dl X + 1", "lda.b #X & 0xFF"]
        unsized = {"lda X": "lda.w X", "jmp X": "jmp.w X", "lda #X": "lda.w #X", "sta X,x": "sta.w X,x"}
        for o in outer:
            tail = ".dl x\n" if o != "none" else ""
            for c in wrap:
                for d in ("back-label", "fwd-label", "sym-before", "sym-after"):
                    for ref in sized + (list(unsized) if (o == "none" or d == "back-label") else []):
                        if c == "if-in-block" and d.startswith("sym"):
                            continue
                        out.append({"kind": f"shadow:{o}:{c}:{d}:{ref}", "rom": rom, "spec": {"t": "twin", "labels": False},
                                    "src": f"*={org:#08x}\n" + outer[o] + wrap[c] % inner(d, ref, "x") + tail,
                                    "twin_src": f"*={org:#08x}\n" + outer[o] + wrap[c] % inner(d, ref, "yy") + tail})
                if o != "none" and rom == "low":     # (the inferred width is that of the OUTER value: 16 bits, as the inner one)
                    for ref, wide in unsized.items():
                        out.append({"kind": f"shadow-width:{o}:{c}:{ref}", "rom": rom, "spec": {"t": "twin", "labels": True},
                                    "src": f"*={org:#08x}\n" + outer[o] + wrap[c] % inner("fwd-label", ref, "x") + tail,
                                    "twin_src": f"*={org:#08x}\n" + outer[o] + wrap[c] % inner("fwd-label", wide, "x") + tail})
        # a loop counter / a named scope that reuses a name of the surroundings: renaming the inner one changes nothing
        for outer_def in ("i := 0x20\n", "i = 0x20\n", "i:\n", ""):
            for use in (".db i & 0xFF\n", "lda.w #i\n", ".dl i\n"):
                def loop(v):
                    return (f"*={org:#08x}\n{outer_def}{use}.for {v} := 0, 3 {{\n.db {v}\nlda.b #{v}\n}}\n{use}"
                            f".macro zz_m({v}) {{\n.for {v} := 1, 3 {{\n.db {v}\n}}\n.db {v}\n}}\nzz_m(9)\n")
                if outer_def:
                    out.append({"kind": "counter-vs-outer", "rom": rom, "spec": {"t": "twin", "labels": False},
                                "src": loop("i"), "twin_src": loop("i").replace(".for i :=", ".for zz_c :=").replace(".db i\nlda.b #i", ".db zz_c\nlda.b #zz_c").replace("{\n.db i\n}\n.db i", "{\n.db zz_c\n}\n.db i")})
        for wrap_a, wrap_b in (("{\n%s}\n", "{\n%s}\n"), (".macro zz_sm() {\n%s}\nzz_sm()\n", "zz_sm()\n"),
                               ("{\n%s}\n", ".scope other {\n%s}\n")):
            def two(n1, n2):
                a = f".scope {n1} {{\nnop\nfirst:\n.db 1\n}}\n.dl {n1}.first\n"
                b = f".scope {n2} {{\nnop\nnop\nfirst:\n.db 2\n}}\n.dl {n2}.first\n"
                return f"*={org:#08x}\n" + wrap_a % a + (wrap_b % b if "%s" in wrap_b else wrap_b)
            if "%s" in wrap_b:
                out.append({"kind": "same-scope-name-in-siblings", "rom": rom, "spec": {"t": "twin", "labels": False},
                            "src": two("item", "item"), "twin_src": two("item", "zz_item2")})
        # a macro whose body declares a named scope, applied twice: each application has its own
        out.append({"kind": "scope-in-macro-twice", "rom": rom, "spec": {"t": "twin", "labels": False},
                    "src": f"*={org:#08x}\n.macro zz_sm(v) {{\n.scope item {{\nfirst:\n.db v\n}}\n.dl item.first\n}}\nzz_sm(1)\nnop\nzz_sm(2)\n",
                    "twin_src": f"*={org:#08x}\n{{\n.scope item {{\nfirst:\n.db 1\n}}\n.dl item.first\n}}\nnop\n{{\n.scope item2 {{\nfirst:\n.db 2\n}}\n.dl item2.first\n}}\n"})
        # export of every kind of name, referenced before and after the scope by every kind of reference whose
        # evaluation time allows it (emission: data / operands; symbol pass: `=`); twin = the value written out
        scope_body = "nop\nlab:\n.db 1\nksym := 0x1234\nesym = 0x4321\n"
        for name, val in (("lab", None), ("ksym", 0x1234), ("esym", 0x4321)):
            for ref in (".dl sc.NAME", "lda.l sc.NAME", ".dw sc.NAME & 0xFFFF", "zz_y = sc.NAME\n.dl zz_y"):
                for before in (True, False):
                    if before and ref.startswith("zz_y") and name == "esym":
                        continue       # an `=` symbol of a later scope is not exported yet when an earlier `=` is evaluated
                    r1 = ref.replace("NAME", name)
                    body = f".scope sc {{\n{scope_body}}}\n"
                    src = f"*={org:#08x}\n" + (r1 + "\n" + body if before else body + r1 + "\n")
                    if val is None:
                        out.append({"kind": f"export-any:{name}:{before}", "rom": rom, "src": src,
                                    "spec": {"t": "export", "name": "lab"} if ref == ".dl sc.NAME" and not before else {"t": "none"}})
                    else:
                        r2 = ref.replace("sc.NAME", f"{val:#x}")
                        twin = f"*={org:#08x}\n" + (r2 + "\n" + body if before else body + r2 + "\n")
                        out.append({"kind": f"export-any:{name}:{before}", "rom": rom, "src": src, "twin_src": twin,
                                    "spec": {"t": "twin", "labels": True}})
        # export: scope.name equals the label, referenced before and after the scope
        for before in (True, False):
            for inner in ("lab:\nnop\n", "nop\nnop\nlab:\nrts\n", ".db 1,2,3\nlab:\n"):
                ref = ".dl sc.lab\n"
                body = f".scope sc {{\n{inner}}}\n"
                if before:
                    src = f"*={org:#08x}\njmp.l after\n{body}after:\n" + ref
                else:
                    src = f"*={org:#08x}\n{body}" + ref
                out.append({"kind": "export", "rom": rom, "src": src, "spec": {"t": "export", "name": "lab"}})
            out.append({"kind": "export-before", "rom": rom, "spec": {"t": "export", "name": "lab"},
                        "src": f"*={org:#08x}\n.dl sc.lab\n.scope sc {{\nnop\nlab:\nnop\n}}\n.dl sc.lab\n"})
    return core.mark_must_assemble(out, {'label-in-if-in-block', 'symbol-from-counter', 'export-mixed', 'symbol-from-inner-label', 'assign-shadow', 'export', 'if-branch-no-scope', 'same-scope-name-in-siblings', 'scope-in-macro-twice', 'export-any', 'counter-vs-outer', 'sibling-reuse', 'export-before', 'scope-name-prefix'})


def instantiate(gen_q):
    from .. import frontinst
    return frontinst.instantiate(gen_q, "c08")
