"""C09 — macro application equals the body inlined with parameters bound."""
from __future__ import annotations

from .. import core, progen
from ..core import HEADER, CASE_TYPE, CHECK, MODEL_VIEW, SHARD, CASE_TIMEOUT, observe, coq_term, nontrivial_key, tags  # noqa: F401

ID = "C09"
THEOREMS = ["C09_inline", "C09_undefined_macro", "C09_too_few_arguments", "C09_deferred_argument", "C09_code_splice",
            "C09_code_splice_not_code", "C09_inline_deferred", "C09_deferred_flag", "C09_deferred_assembly",
            "C09_inline_assembly", "C09_inline_assembly_deferred", "C09_code_argument_assembly",
            "C09_nested_splices_assembly", "C09_mixed_arguments_assembly",
            # the printer / front-end round trip that lifts the AST-level statements to source text
            "Front_roundtrip", "Front_assemble_printed", "Front_assemble_ast_printed",
            "TextLift_macro_inline"]
PROOF_HEADER = "From A816 Require Import Properties.C09 Properties.FrontEnd Properties.TextLift."
RULE = ("generated macro definitions (0-3 parameters, all statement kinds in bodies, local labels, nested calls, code-block "
        "parameters) x argument expressions (literals, constants, backward/forward labels, names equal to parameter names) "
        "x 1-4 applications; each program is compared with the model and with its mechanically inlined twin "
        "({ q := arg ... body[p:=q] } with fresh q); undefined macro / too few arguments must be rejected")
PROVED_NOTE = ("proved: an application whose arguments evaluate at the call site generates exactly the nodes and resolver "
               "state of the block { p1 := v1 ... pn := vn body } (literal-bound twin), in its own scope; undefined macro and "
               "too few arguments fail. a deferred (forward-label) argument is bound, when the passes run, to its value in the caller's scope. "
               "With any mix of evaluated and deferred arguments the application generates the nodes of the inlined block up to "
               "the lookup scope of the deferred parameters, and the two whole assemblies are equal when no deferred expression "
               "mentions a name bound in the block scope itself (exact capture condition, with examples both ways); a code-block "
               "parameter splice generates the argument's statements in place. END TO END (assemble_ast = code generation + all passes): "
               "a program with an application = the program with the inlined block, unconditionally for eager arguments, under the "
               "capture condition for deferred ones; with code-block arguments = the block with every splice (own level / nested blocks) "
               "replaced by the argument's statements (one-level substitution; side condition: no expression uses a code-parameter "
               "name as an identifier, shown necessary); nested splices / nested applications inside the body and the arguments (recursive "
               "substitution) under the condition that no macro applied meanwhile has a parameter of the same name (shown necessary). "
               "Evaluated, deferred and code-block arguments mixed in one application: proved under the union of the side conditions. "
               "Correspondence-only: a nested application that rebinds the same code-parameter name (inlined twins)."
               " SOURCE TEXT: the front-end round trip (Front_roundtrip: printing a printable AST, scanning and parsing the text "
               "gives the AST back up to positions; Front_assemble_ast_printed: assembling the printed text gives the blocks and labels of "
               "the AST-level assembly) carries these AST-level statements to the source text of every printable program; its lexicon "
               "side condition is discharged on the lexicon regenerated from /repo in each run.")
MANIFEST = {
    "text": ("Coq theorem over the Gallina model of generate_macro_application (all macros/arguments of the eager kind); model "
             "tied to the code by differential runs; oracle: the implementation's output for the program equals its output for "
             "the mechanically inlined twin."),
    "note": "Partial only for nested applications rebinding a code-parameter name (twin + correspondence). Trusted: Coq kernel/vm_compute, harness. No axioms.",
    "technique": "Coq proof (definitional equality of expansions) + differential correspondence + inlined twins",
}


def cases(ctx):
    rng, tier = ctx["rng"], ctx["tier"]
    out = []
    n = 250 if tier == "quick" else 4000
    feats = {"blocks", "scopes", "macros", "if", "for", "data", "symbols"}
    tries = 0
    while len(out) < n and tries < n * 5:
        tries += 1
        rom = rng.choice(["low", "low", "high"])
        g = progen.Gen(rng, rom=rom, features=feats)
        tree = g.program(rng.randrange(3, 10))
        kinds = progen.count_kinds(tree)
        if "apply" not in kinds:
            continue
        twin = core.inline_macros(tree, deferred_names=set(core.late_names(tree)))
        out.append({"kind": "inline", "rom": rom, "src": progen.render(tree) + "\n",
                    "twin_src": progen.render(twin) + "\n", "tree_kinds": kinds,
                    "spec": {"t": "twin", "labels": False}})
    org = 0x008000
    # arguments whose names coincide with parameter names (capture must not happen)
    for args, pre in (("1, a", "a := 5\nb := 9\n"), ("b, a", "a := 5\nb := 9\n"), ("a + b, b", "a := 5\nb := 9\n"),
                      ("a, lab", "a := 3\nlab:\n"), ("fwd, a", "a := 3\n"), ("b, fwd", "b := 4\n")):
        src = f"*={org:#08x}\n.macro m(a, b) {{\n.db a\n.dw b\n}}\n{pre}m({args})\nfwd:\nnop\n"
        x, y = [s.strip() for s in args.split(",")]
        def bind(q, e):
            return f"{q} = {e}" if ("fwd" in e or "lab" in e) else f"{q} := {e}"
        twin = f"*={org:#08x}\n{pre}{{\n{bind('zq1', x)}\n{bind('zq2', y)}\n.db zq1\n.dw zq2\n}}\nfwd:\nnop\n"
        out.append({"kind": "capture", "rom": "low", "src": src, "twin_src": twin, "spec": {"t": "twin", "labels": True}})
    # independent applications: local labels do not clash; recursion terminated by a condition
    out.append({"kind": "local-labels", "rom": "low", "spec": {"t": "twin", "labels": False},
                "src": f"*={org:#08x}\n.macro m(v) {{\nhere:\n.dw here\n.db v\n}}\nm(1)\nm(2)\nm(3)\n",
                "twin_src": f"*={org:#08x}\n{{\nh1:\n.dw h1\n.db 1\n}}\n{{\nh2:\n.dw h2\n.db 2\n}}\n{{\nh3:\n.dw h3\n.db 3\n}}\n"})
    out.append({"kind": "recursive", "rom": "low", "spec": {"t": "twin", "labels": False},
                "src": f"*={org:#08x}\n.macro r(n) {{\n.db n\n.if n {{\nr(n - 1)\n}}\n}}\nr(4)\n",
                "twin_src": f"*={org:#08x}\n.db 4, 3, 2, 1, 0\n"})
    out.append({"kind": "code-arg", "rom": "low", "spec": {"t": "twin", "labels": False},
                "src": f"*={org:#08x}\n.macro w(v, body) {{\n.db v\n{{{{body}}}}\n.db v\n{{{{body}}}}\n}}\nw(7, {{\nnop\nlda.w #0x1234\n}})\n",
                "twin_src": f"*={org:#08x}\n.db 7\nnop\nlda.w #0x1234\n.db 7\nnop\nlda.w #0x1234\n"})
    # a code-block argument that DEFINES names (a label, a `=` constant) which the macro body uses outside the splice: the
    # block's statements belong to the application's own block (also under an outer definition of the same name)
    for outer in ("", "zz_entry:\nzz_len = 9\nnop\n"):
        out.append({"kind": "code-arg-defines", "rom": "low", "spec": {"t": "twin", "labels": False},
                    "src": (f"*={org:#08x}\n{outer}.macro zz_rt(tag, code) {{\n.db tag\n{{{{ code }}}}\n.dw zz_entry & 0xFFFF\n.db zz_len\n}}\n"
                            "zz_rt(1, {\nnop\nzz_entry:\nzz_len = 2\nrts\n})\nzz_rt(2, {\nzz_entry:\nnop\nnop\nzz_len = 3\n})\n"),
                    "twin_src": (f"*={org:#08x}\n{outer}{{\n.db 1\nnop\nzz_e1:\nrts\n.dw zz_e1 & 0xFFFF\n.db 2\n}}\n"
                                 "{\n.db 2\nzz_e2:\nnop\nnop\n.dw zz_e2 & 0xFFFF\n.db 3\n}\n")})
    # the FIRST macro definitions of a program inside a nested construct (a taken .if / else branch, a block, a named scope,
    # an included file): the definition is known to everything that follows the construct
    for wname, w in (("if", ".if 1 {\n%s}\n"), ("else", ".if 0 {\nnop\n} else {\n%s}\n"), ("block", "{\n%s}\n"),
                     ("scope", ".scope zz_lib {\n%s}\n"), ("nested", "{\n.if 1 {\n{\n%s}\n}\n}\n")):
        out.append({"kind": f"defined-in:{wname}", "rom": "low", "spec": {"t": "twin", "labels": False},
                    "src": f"*={org:#08x}\n" + (w % ".macro zz_dm(a) {\n.db a, a + 1\n}\n") + "zz_dm(5)\n{\nzz_dm(7)\n}\n",
                    "twin_src": f"*={org:#08x}\n.db 5, 6, 7, 8\n"})
    out.append({"kind": "defined-in:include", "rom": "low", "spec": {"t": "twin", "labels": False},
                "files": {"zz_lib.s": ".macro zz_dm(a) {\n.db a, a + 1\n}\n"},
                "src": f"*={org:#08x}\n.include 'zz_lib.s'\nzz_dm(5)\n", "twin_src": f"*={org:#08x}\n.db 5, 6\n"})
    # applications that expand to nothing (a helper compiled out, the last step of a recursion) still have their own scope:
    # what follows - scopes with equal label names, applications at another nesting level - is unaffected
    for pre in (".macro zz_tr(v) {\n.if DEBUG {\n.db v\n}\n}\nDEBUG := 0\nzz_tr(1)\n",
                ".macro zz_tr(v) {\n.if DEBUG {\n.db v\n}\n}\nDEBUG := 0\n{\nzz_tr(1)\n}\n",
                ".macro zz_tr(v) {\n.if v {\n.db v\nzz_tr(v - 1)\n}\n}\nzz_tr(2)\n",
                ".macro zz_tr(v) {\n}\n.scope zz_o {\nzz_tr(1)\nzz_tr(2)\n}\n"):
        rest = (".scope menu {\nstart:\nnop\nzz_x = 0x12\n}\n.scope game {\nnop\nstart:\nrts\nzz_x = 0x42\n.db zz_x\n}\n"
                ".macro zz_v(q) {\n.db q\n}\nzz_x = 0x77\nzz_v(zz_x)\n.dl menu.start, game.start\n.db menu.zz_x, game.zz_x\n")
        twin_pre = pre.replace("zz_tr(1)\n", "{\n}\n").replace("zz_tr(2)\n", "{\n.db 2\n{\n.db 1\n{\n}\n}\n}\n" if "v - 1" in pre else "{\n}\n")
        out.append({"kind": "empty-expansion", "rom": "low", "spec": {"t": "twin", "labels": True},
                    "src": f"*={org:#08x}\n{pre}{rest}", "twin_src": f"*={org:#08x}\n{twin_pre}{rest}"})
    # arguments that cannot be evaluated at expansion time (forward labels, `=` symbols) and mention call-site names equal
    # to the macro's own (earlier or later) parameters: each argument is a call-site expression
    for decl, call in (("lo, hi", "hi, lo"), ("first, second, third", "second, third, first"), ("a, b", "b + 1, a + 1"),
                       ("a, b", "b, b"), ("x, y, z", "z, x, y")):
        ps = [q.strip() for q in decl.split(",")]
        args = [q.strip() for q in call.split(",")]
        defs_sym = "".join(f"{q} = {0x20 + i}\n" for i, q in enumerate(ps))
        defs_lab = "".join(f"{q}:\n.db {i}\n" for i, q in enumerate(ps))
        body = "".join(f".dw {q}\n" for q in ps)
        # (`=` symbols defined BEHIND the application are not yet known when its arguments are resolved: refused, not planted)
        for how, defs, before in (("labels-after", defs_lab, False), ("symbols-before", defs_sym, True), ("labels-before", defs_lab, True)):
            app = f"zz_p({call})\n"
            src = f"*={org:#08x}\n.macro zz_p({decl}) {{\n{body}}}\n" + ((defs + app) if before else (app + defs))
            twin_body = "".join(f".dw {a}\n" for a in args)
            twin = f"*={org:#08x}\n" + ((defs + twin_body) if before else (twin_body + defs))
            out.append({"kind": f"deferred-arg-names:{how}", "rom": "low", "src": src, "twin_src": twin, "spec": {"t": "twin", "labels": True}})
    # an unsized instruction in the body takes its width from THIS application's argument
    for a1, a2 in (("0x12, 0x10", "0x1234, 0x2100"), ("0x1234, 0x2100", "0x12, 0x10"), ("0x1234, 0x7e2000", "0x01, 0x02")):
        def body_of(args):
            v, d = [q.strip() for q in args.split(",")]
            return f"{{\nlda #{v}\nsta {d}\n}}\n"
        out.append({"kind": "width-per-application", "rom": "low", "spec": {"t": "twin", "labels": True},
                    "src": f"*={org:#08x}\n.macro zz_st(v, d) {{\nlda #v\nsta d\n}}\nzz_st({a1})\nzz_st({a2})\nzz_e:\n.dl zz_e\n",
                    "twin_src": f"*={org:#08x}\n" + body_of(a1) + body_of(a2) + "zz_e:\n.dl zz_e\n"})
    # one application mixing an argument known only to the passes (a label) with a constant the body tests at expansion
    # time (.if, .for bound, recursion counter): each argument is bound on its own
    for lab_first in (True, False):
        params, args = ("target, far", "zz_h, {f}") if lab_first else ("far, target", "{f}, zz_h")
        for f in (1, 0):
            out.append({"kind": "mixed-arg-kinds", "rom": "low", "spec": {"t": "twin", "labels": True},
                        "src": (f"*={org:#08x}\n.macro zz_pt({params}) {{\n.if far {{\n.dl target\n}} else {{\n.dw target\n}}\n.for zz_k := 0, far + 1 {{\n.db zz_k\n}}\n}}\n"
                                f"zz_pt({args.format(f=f)})\nzz_h:\nrts\n"),
                        "twin_src": f"*={org:#08x}\n{{\n{'.dl' if f else '.dw'} zz_h\n.db 0{', 1' if f else ''}\n}}\nzz_h:\nrts\n"})
    # a parameterless helper macro that splices a block parameter of the macro it is applied in (resolved at expansion,
    # through the scopes of the call site), and a macro defined inside a macro body
    out.append({"kind": "splice-through-helper", "rom": "low", "spec": {"t": "twin", "labels": False},
                "src": (f"*={org:#08x}\n.macro zz_wrap() {{\npha\n{{{{code}}}}\npla\n}}\n.macro zz_outer(code) {{\nzz_wrap()\nnop\nzz_wrap()\n}}\n"
                        "zz_outer({\nlda.b #1\n})\n"),
                "twin_src": f"*={org:#08x}\npha\nlda.b #1\npla\nnop\npha\nlda.b #1\npla\n"})
    # failures
    for src in (f"*={org:#08x}\nnope(1)\n", f"*={org:#08x}\n.macro m(a, b) {{\n.db a\n}}\nm(1)\n",
                f"*={org:#08x}\nm(1)\n.macro m(a) {{\n.db a\n}}\n", f"*={org:#08x}\n.macro m(a, b, c) {{\nnop\n}}\nm()\n",
                # nothing of an application is reachable from outside under the macro's name
                f"*={org:#08x}\n.macro zz_mn(a) {{\nzz_in:\n.db a\n}}\nzz_mn(3)\n.dl zz_mn.zz_in\n",
                f"*={org:#08x}\n.macro zz_mn(a) {{\nzz_in:\n.db a\n}}\nzz_mn(3)\n.db zz_mn.a\n",
                ):
        out.append({"kind": "must-fail", "rom": "low", "src": src, "spec": {"t": "reject"}})
    # a macro defined by ANOTHER program assembled earlier in the same process is still undefined here (and a
    # redefinition there does not reach a program that defines its own)
    earlier = f"*={org:#08x}\n.macro r(n) {{\n.db n, n\n}}\n.macro m(a, b) {{\n.dw a, b\n}}\nr(1)\nm(2, 3)\n"
    for src in (f"*={org:#08x}\nr(0)\n", f"*={org:#08x}\nm(1, 2)\n", f"*={org:#08x}\nnop\n{{\nr(5)\n}}\n"):
        out.append({"kind": "must-fail:after-other-program", "rom": "low", "src": src, "earlier_src": earlier,
                    "spec": {"t": "reject"}})
    out.append({"kind": "own-definition:after-other-program", "rom": "low", "earlier_src": earlier,
                "src": f"*={org:#08x}\n.macro r(n) {{\n.db n\n}}\nr(7)\n", "twin_src": f"*={org:#08x}\n.db 7\n",
                "spec": {"t": "twin", "labels": False}})
    return core.mark_must_assemble(out, {'mixed-arg-kinds', 'splice-through-helper', 'deferred-arg-names', 'width-per-application', 'recursive', 'capture', 'code-arg', 'empty-expansion', 'defined-in', 'own-definition', 'local-labels', 'code-arg-defines'})


def instantiate(gen_q):
    from .. import frontinst
    return frontinst.instantiate(gen_q, "c09")
