"""C10 — conditional and loop directives equal the hand-expanded program."""
from __future__ import annotations

from .. import core, progen
from ..core import HEADER, CASE_TYPE, CHECK, MODEL_VIEW, SHARD, CASE_TIMEOUT, observe, coq_term, nontrivial_key, tags  # noqa: F401

ID = "C10"
THEOREMS = ["C10_if_true", "C10_if_false_else", "C10_if_false_nothing", "C10_condition", "C10_for", "C10_for_range",
            "C10_for_empty", "C10_sequence", "C10_for_unrolled_assembly", "C10_for_unrolled_labels", "C10_kind_invisible",
            "C10_if_assembly", "C10_if_true_assembly", "C10_if_undefined_assembly", "C10_if_false_assembly", "C10_nesting_stable",
            # the printer / front-end round trip that lifts the AST-level statements to source text
            "Front_roundtrip", "Front_assemble_printed", "Front_assemble_ast_printed",
            "TextLift_for_unrolled", "TextLift_if_selected"]
PROOF_HEADER = "From A816 Require Import Properties.C10 Properties.FrontEnd Properties.TextLift."
RULE = ("generated programs with .if (zero, non-zero, negative, large, undefined-name conditions, with/without else) and "
        ".for (empty, single, many, negative start, bounds from constants and macro parameters) incl. nesting and use inside "
        "macros; each compared with the model and with its hand-expanded twin (selected branch inline, { v = k body } per "
        "iteration); non-trivial: assembles and emits bytes")
PROVED_NOTE = ("proved: .if = its first block / else block / nothing according to the condition (undefined name = false, "
               "negative = true); .for = the body once per a..b-1 in order, each in its own scope with the variable bound, "
               "nothing when b <= a; statement lists compose sequentially; END TO END: the assembly (code generation of what "
               "precedes, the loop, what follows; all passes) of a program with .for and of its hand-unrolled twin "
               "{ v = k body }... fail with the same error kind or give the same writer blocks, and the label listing differs "
               "only by the labels of the loop's internal scopes (simulation over every resolver operation, node and pass). "
               ".if END TO END: assemble_ast of a program with .if = assemble_ast of the program with the selected branch written in place "
               "(non-zero incl. negative -> first block, zero/undefined -> else or nothing), up to the nesting limit (the branch is one level "
               "deeper; side condition shown necessary). Correspondence-only: that codegen.py computes what the model computes."
               " SOURCE TEXT: the front-end round trip (Front_roundtrip: printing a printable AST, scanning and parsing the text "
               "gives the AST back up to positions; Front_assemble_ast_printed: assembling the printed text gives the blocks and labels of "
               "the AST-level assembly) carries these AST-level statements to the source text of every printable program; its lexicon "
               "side condition is discharged on the lexicon regenerated from /repo in each run.")
MANIFEST = {
    "text": ("Coq theorems over the Gallina model of generate_if/generate_for (all conditions, bounds, bodies); model tied to "
             "the code by differential runs; oracle: the implementation's output for the program equals its output for the "
             "hand-expanded twin."),
    "note": "Trusted: Coq kernel/vm_compute, harness, table translator. No axioms.",
    "technique": "Coq proof (definitional equality of expansions) + differential correspondence + unrolled twins",
}


def cases(ctx):
    rng, tier = ctx["rng"], ctx["tier"]
    out = []
    n = 250 if tier == "quick" else 4000
    feats = {"blocks", "scopes", "macros", "if", "for", "data", "symbols"}
    tries = 0
    while len(out) < n and tries < n * 5:
        tries += 1
        rom = rng.choice(["low", "low", "high"])
        g = progen.Gen(rng, rom=rom, features=feats)
        tree = g.program(rng.randrange(3, 10))
        kinds = progen.count_kinds(tree)
        if "if" not in kinds and "for" not in kinds:
            continue
        out.append({"kind": "unroll", "rom": rom, "src": progen.render(tree) + "\n",
                    "twin_src": progen.render(core.unroll(tree)) + "\n", "tree_kinds": kinds,
                    "spec": {"t": "twin", "labels": False}})
    org = 0x008000
    for cond, taken in (("0", False), ("1", True), ("-1", True), ("0x10000", True), ("nope", False), ("k", True),
                        ("z", False), ("k - 3", False), ("1 << 40", True), ("nope + 1", False)):
        for has_else in (True, False):
            src = f"*={org:#08x}\nk := 3\nz := 0\n.if {cond} {{\n.db 1\nlab_t:\n}}" + (" else {\n.db 2, 2\nlab_e:\n}" if has_else else "") + "\nend:\n.dl end\n"
            body = ".db 1\nlab_t:\n" if taken else (".db 2, 2\nlab_e:\n" if has_else else "")
            twin = f"*={org:#08x}\nk := 3\nz := 0\n{body}end:\n.dl end\n"
            out.append({"kind": f"if:{cond}", "rom": "low", "src": src, "twin_src": twin, "spec": {"t": "twin", "labels": True}})
    # an operator the evaluator does not implement is an error of the assembly, not a false condition; names that are
    # only bound when the passes run (`=` symbols, labels) are undefined at expansion time: false, as in the twin
    for cond in ("k == 3", "k > 0", "k < 9", "1 == 1"):
        out.append({"kind": f"if-unknown-operator:{cond}", "rom": "low", "spec": {"t": "reject"},
                    "src": f"*={org:#08x}\nk := 3\n.if {cond} {{\n.db 1\n}} else {{\n.db 2\n}}\n"})
    for pre, cond in (("zz_late = 1\n", "zz_late"), ("zz_lab:\n", "zz_lab"), ("", "zz_fwd"), ("zz_late = 1\n", "zz_late + 1")):
        src = f"*={org:#08x}\n{pre}.if {cond} {{\n.db 1\n}} else {{\n.db 2\n}}\nzz_fwd:\nend:\n.dl end\n"
        out.append({"kind": f"if-late-name:{cond}", "rom": "low", "spec": {"t": "twin", "labels": True}, "src": src,
                    "twin_src": f"*={org:#08x}\n{pre}.db 2\nzz_fwd:\nend:\n.dl end\n"})
    # a branch that DEFINES something (a macro, a constant): only the selected branch may take effect
    for cond, taken in (("0", False), ("1", True), ("-1", True), ("nope", False), ("k", True), ("z", False)):
        for has_else in (True, False):
            for default in (True, False):
                d = ".macro put(v) {\n.db 0x10 + v\n}\nc := 7\n" if default else ""
                t_def = ".macro put(v) {\n.db 0x20 + v, 0x21\n}\nc := 8\n"
                e_def = ".macro put(v) {\n.dw 0x3000 + v\n}\nc := 9\n"
                head = f"*={org:#08x}\nk := 3\nz := 0\n{d}"
                tail = "put(1)\n.db c\nend:\n.dl end\n"
                src = head + f".if {cond} {{\n{t_def}}}" + (f" else {{\n{e_def}}}" if has_else else "") + "\n" + tail
                twin = head + (t_def if taken else (e_def if has_else else "")) + tail
                out.append({"kind": f"if-defines:{cond}:{int(has_else)}:{int(default)}", "rom": "low", "src": src,
                            "twin_src": twin, "spec": {"t": "twin", "labels": True}})
    for lo, hi in ((0, 0), (0, 1), (0, 3), (2, 7), (5, 2), (-2, 2), (0, 40), (-3, -1), (-12, -8), (-32, -29), (-101, -99), (-10, 1), (-256, -254), (9, 12), (99, 101)):
        src = f"*={org:#08x}\n.for i := {lo}, {hi} {{\nlab:\n.db i\n.dw lab\n}}\nend:\n.dl end\n"
        twin = f"*={org:#08x}\n" + "".join(f"{{\ni = {k}\nlab:\n.db i\n.dw lab\n}}\n" for k in range(lo, hi)) + "end:\n.dl end\n"
        out.append({"kind": f"for:{lo}:{hi}", "rom": "low", "src": src, "twin_src": twin, "spec": {"t": "twin", "labels": False}})
    # the loop variable reuses a name of the surroundings (constant, define-like symbol, macro parameter)
    for outer in ("i := 0x20\n", "i = 0x20\n", "i:\n"):
        out.append({"kind": "for:shadows-outer", "rom": "low", "spec": {"t": "twin", "labels": False},
                    "src": f"*={org:#08x}\n{outer}.db i & 0xFF\n.for i := 0, 4 {{\n.db i\nlda.b #i\n.dw 0x1000 + i\n}}\n.db i & 0xFF\n",
                    "twin_src": f"*={org:#08x}\n{outer}.db i & 0xFF\n" + "".join(f".db {k}\nlda.b #{k}\n.dw 0x1000 + {k}\n" for k in range(4)) + ".db i & 0xFF\n"})
    out.append({"kind": "for:shadows-parameter", "rom": "low", "spec": {"t": "twin", "labels": False},
                "src": f"*={org:#08x}\n.macro stripe(k) {{\n.db k\n.for k := 0, 3 {{\n.db k\n}}\n.db k\n}}\nstripe(7)\n",
                "twin_src": f"*={org:#08x}\n.db 7, 0, 1, 2, 7\n"})
    # an empty first block / empty else block
    for cond, taken in (("1", True), ("0", False), ("-1", True), ("nope", False)):
        for first, second in (("", ".db 2\n"), (".db 1\n", ""), ("", ""), ("; only a comment\n", ".db 2\n"), ("/* c */\n", ".db 2\n")):
            src = f"*={org:#08x}\n.db 0xEE\n.if {cond} {{\n{first}}} else {{\n{second}}}\nend:\n.dl end\n"
            body = first if taken else second
            if body.startswith(";") or body.startswith("/*"):
                body = ""
            out.append({"kind": f"if-empty:{cond}", "rom": "low", "spec": {"t": "twin", "labels": True},
                        "src": src, "twin_src": f"*={org:#08x}\n.db 0xEE\n{body}end:\n.dl end\n"})
    # bounds from constants and macro parameters; nesting
    out.append({"kind": "for:param", "rom": "low", "spec": {"t": "twin", "labels": False},
                "src": f"*={org:#08x}\n.macro rep(n, v) {{\n.for j := 0, n {{\n.db v + j\n}}\n}}\nc := 2\nrep(3, 0x10)\nrep(c, 0x20)\nrep(0, 9)\n",
                "twin_src": f"*={org:#08x}\n.db 0x10, 0x11, 0x12, 0x20, 0x21\n"})
    # the loop variable is bound when the passes run, not at expansion: a condition over it is false,
    # exactly as in the hand-written iteration `{ a = k ... }`
    out.append({"kind": "for:nested", "rom": "low", "spec": {"t": "twin", "labels": False},
                "src": f"*={org:#08x}\n.for a := 0, 3 {{\n.for b := 0, 2 {{\n.if a - 1 {{\n.db a, b\n}}\n.dw a, b\n}}\n}}\n",
                "twin_src": f"*={org:#08x}\n" + "".join(
                    f"{{\na = {a}\n" + "".join(f"{{\nb = {b}\n.if a - 1 {{\n.db a, b\n}}\n.dw a, b\n}}\n" for b in range(2)) + "}\n"
                    for a in range(3))})
    out.append({"kind": "for:nested-const", "rom": "low", "spec": {"t": "twin", "labels": False},
                "src": f"*={org:#08x}\nc := 2\n.for a := 0, 3 {{\n.for b := 0, c {{\n.if c - 1 {{\n.db a, b\n}}\n}}\n}}\n",
                "twin_src": f"*={org:#08x}\n.db 0, 0, 0, 1, 1, 0, 1, 1, 2, 0, 2, 1\n"})
    # a taken branch whose generation fails (a name unknown at expansion time in `:=` / a loop bound / a code lookup) fails
    # the assembly: it is never read as "condition false"
    for bad in ("zz_x := zz_later\n.db zz_x\n", ".for zz_q := 0, zz_later {\nnop\n}\n", "{{zz_nocode}}\n",
                ".if 1 {\nzz_y := zz_later\n}\n", ".macro zz_bm() {\nzz_z := zz_later\n}\nzz_bm()\n"):
        for tail in ("", "} else {\n.db 0xEE\n"):
            out.append({"kind": "if-taken-block-fails", "rom": "low", "spec": {"t": "reject"},
                        "src": f"*={org:#08x}\n.db 0x10\n.if 1 {{\n{bad}{tail}}}\nzz_later = 3\n.db 0x33\n"})
    # conditions over an outer constant two or more scopes below its definition, with scopes in between that declare nothing
    for wname, w in (("for-in-for", ".for zz_a := 0, 2 {\n.for zz_b := 0, 2 {\n%s}\n}\n"), ("for-in-macro0", ".macro zz_m0() {\n.for zz_b := 0, 2 {\n%s}\n}\nzz_m0()\n"),
                     ("for-in-block", "{\n.for zz_b := 0, 2 {\n%s}\n}\n"), ("block-in-block", "{\n{\n%s}\n}\n")):
        reps = {"for-in-for": 4, "for-in-macro0": 2, "for-in-block": 2, "block-in-block": 1}[wname]
        for val, taken in ((1, True), (0, False), (-1, True)):
            body = ".if zz_flag {\n.db 0xA0\n} else {\n.db 0xB0\n}\n"
            out.append({"kind": f"if-outer-constant:{wname}", "rom": "low", "spec": {"t": "twin", "labels": True},
                        "src": f"*={org:#08x}\nzz_flag := {val}\n" + (w % body),
                        "twin_src": f"*={org:#08x}\n.db " + ", ".join(["0xA0" if taken else "0xB0"] * reps) + "\n"})
    # a loop body whose only declarations stand in the else block of an .if: still one scope per iteration
    out.append({"kind": "for-else-declares", "rom": "low", "spec": {"t": "twin", "labels": False},
                "src": f"*={org:#08x}\n.for zz_i := 0, 3 {{\n.if 0 {{\nnop\n}} else {{\nzz_e:\n.dw zz_e\nzz_off = zz_i * 2\n.db zz_off\n}}\n}}\n",
                "twin_src": f"*={org:#08x}\n" + "".join(f"{{\nzz_e{k}:\n.dw zz_e{k}\n.db {k * 2}\n}}\n" for k in range(3))})
    return core.mark_must_assemble(out, {'if-outer-constant', 'for-else-declares', 'for', 'if-late-name', 'if-empty', 'if'})


def instantiate(gen_q):
    from .. import frontinst
    return frontinst.instantiate(gen_q, "c10")
