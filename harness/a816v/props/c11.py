"""C11 — IPS writer.  Correspondence of IPSWriter (and SFCWriter) with Model/Ips.v, Model/Sfc.v; spec
oracle = the implementation's file parsed/applied by the independent patcher of Spec/IpsFormat.v
(Oracle/C11o.v); theorems Properties/C11.v."""
from __future__ import annotations

import io
import itertools

from .. import common as C
from ..obs import observe_call

ID = "C11"
HEADER = "From A816 Require Import Oracle.C11o."
CASE_TYPE = "case"
CHECK = "check"
SHARD = 32
MODEL_VIEW = "model_view"
THEOREMS = ["C11_wellformed", "C11_tiling", "C11_fuel", "C11_apply", "C11_empty_block", "C11_refuse_block",
            "C11_refuse", "C11_refuse_first", "C11_accept", "C11_partial_file"]
RULE = ("one IPSWriter session per case on an io.BytesIO file: begin, 1-6 write_block calls, end; lengths "
        "{0,1,2,k*65535-1,k*65535,k*65535+1 (k=1..3),200000} and small random ones; addresses around 0, 0x200, the "
        "marker 0x454F46 (also minus the copier shift and minus multiples of 65535), the 2^24 limit, negative; copier "
        "header on/off; file bytes and exception class compared with the model; a case is non-trivial when it has a "
        "non-empty block; distinct by (copier, [(address, data)])")
PROVED_NOTE = ("proved for all block sequences (induction): file = PATCH + valid plain records + EOF; the records of a "
               "block tile it exactly once in order, split-loop fuel suffices; the independent patcher applied to the file "
               "= the blocks written in order at address (+0x200 with the copier header), empty blocks are the identity; "
               "a record start < 0, >= 2^24 or = 0x454F46 is refused (and only those). Correspondence-only: that "
               "writers.py computes what Model/Ips.v computes.")
EXHAUSTIVE = {"quick": False, "thorough": False}
MANIFEST = {
    "text": ("IPS writer proved in Coq for every block sequence: output is PATCH, valid records, EOF; a block is tiled "
             "exactly once by records of at most 65535 bytes; an independent sequential IPS patcher applied to the output "
             "writes exactly the blocks in order at their addresses (+0x200 with the copier header); record starts that "
             "IPS cannot represent (negative, >= 2^24, 0x454F46) are refused. The Gallina model of writers.py is tied to "
             "the code by a boundary-enumerated correspondence run comparing the produced file byte for byte."),
    "note": ("Trusted: Coq kernel + vm_compute; correspondence harness; CPython struct.pack range checks as modelled; "
             "hand-written Spec/IpsFormat.v. No axioms."),
    "technique": "Coq proof over a Gallina model + differential correspondence with vm_compute",
}

SENT = 0x454F46
TOP = 1 << 24
LENS = [0, 1, 2] + [k * 65535 + d for k in (1, 2, 3) for d in (-1, 0, 1)] + [200000]
SFC_LIMIT = 600_000


def _addresses(n: int) -> list[int]:
    """Boundary addresses for a block of n bytes."""
    a = [0, 1, 0x1FF, 0x200, SENT - 0x200, SENT - 65535, SENT - 65535 - 0x200, SENT - 2 * 65535, SENT, SENT + 1,
         SENT - 0x200 - 1, TOP - 1, TOP, TOP + 5, TOP - 0x200, TOP - 0x200 - 1, TOP - 0x201 + 1, -1, -0x200, -0x201]
    for d in (-1, 0, 1, 2):
        a.append(TOP - 1 - n + d)
        a.append(TOP - 1 - n + d - 0x200)
    if n > 65535:
        last = ((n - 1) // 65535) * 65535      # offset of the last record inside the block
        a += [TOP - last - 1, TOP - last, TOP - last - 0x200, TOP - last - 0x200 - 1]
    return sorted(set(a))


def _data_runs(rng, n: int) -> list[list[int]]:
    """n bytes as (byte, count) runs; long data are cut around the 65535 multiples."""
    if n == 0:
        return []
    if n <= 64:
        if rng.random() < 0.3:
            return _rle(bytes(rng.choice([0, 0x45, 0x4F, 0x46, 0xFF]) for _ in range(n)))
        return _rle(bytes(rng.randrange(256) for _ in range(n)))
    cuts = {0, n}
    for k in range(1, n // 65535 + 2):
        for d in (-1, 0, 1):
            if 0 < k * 65535 + d < n and rng.random() < 0.6:
                cuts.add(k * 65535 + d)
    for _ in range(rng.randint(0, 3)):
        cuts.add(rng.randrange(1, n))
    cuts = sorted(cuts)
    out, prev = [], -1
    for lo, hi in zip(cuts, cuts[1:]):
        v = rng.randrange(256)
        while v == prev:
            v = rng.randrange(256)
        out.append([v, hi - lo])
        prev = v
    return out


def _rle(b: bytes) -> list[list[int]]:
    return [[k, sum(1 for _ in g)] for k, g in itertools.groupby(b)]


def _unrle(runs) -> bytes:
    return b"".join(bytes([b]) * n for b, n in runs)


def cases(ctx):
    rng, tier = ctx["rng"], ctx["tier"]
    out = []
    # 1. single writes: every length x every boundary address x copier
    for n in LENS + [rng.randint(3, 40)]:
        addrs = _addresses(n)
        if tier == "quick" and n > 2:
            keep = {SENT - 0x200, SENT - 65535, SENT - 65535 - 0x200, SENT, TOP, TOP - 0x200, -1}
            addrs = [a for a in addrs if a in keep or rng.random() < (0.5 if n < 65534 else 0.3)]
        for a in addrs:
            for copier in (False, True):
                out.append({"copier": copier, "blocks": [[a, _data_runs(rng, n)]]})
    # 1b. fill blocks (one repeated byte: cleared tables, padding) of the lengths a run-length encoder would care about
    for n in (1, 3, 4, 5, 8, 100, 65534, 65535, 65536):
        for v in (0, 0xFF, 0x45):
            for copier in (False, True):
                for a in (0, 0x9000, 0x7FFE):
                    out.append({"copier": copier, "blocks": [[a, [[v, n]]]]})
                out.append({"copier": copier, "blocks": [[0x100, [[1, 2], [2, 2]]], [0x9000, [[v, n]]], [0x9000 + n, [[7, 3]]]]})
    # 2. sequences of 1-6 writes
    nseq = 700 if tier == "quick" else 22000
    for _ in range(nseq):
        copier = rng.random() < 0.5
        k = rng.randint(1, 6)
        blocks = []
        big_left = 1 if tier == "quick" else 2
        prev_end = None
        for _i in range(k):
            r = rng.random()
            if r < (0.07 if tier == "quick" else 0.12) and big_left:
                n = rng.choice(LENS[3:])
                big_left -= 1
            elif r < 0.30:
                n = rng.choice([0, 0, 1, 2])
            else:
                n = rng.randint(1, 40)
            r = rng.random()
            if r < 0.25 and prev_end is not None:
                a = prev_end + rng.choice([0, 0, 0, 1, -1, -3])          # adjacent / gap / overlap
            elif r < 0.6:
                a = rng.choice(_addresses(n))
            elif r < 0.85:
                a = rng.randrange(0, 0x3000)
            else:
                a = rng.randrange(0, TOP)
            if rng.random() < 0.92:
                # mostly representable sequences, so that later blocks are reached
                sh = 0x200 if copier else 0
                if a + sh < 0 or a + sh + n > TOP or (n and any((a + sh + j * 65535) == SENT for j in range((n - 1) // 65535 + 1))):
                    a = rng.randrange(0, 0x8000)
            blocks.append([a, _data_runs(rng, n)])
            prev_end = a + n
        out.append({"copier": copier, "blocks": blocks})
    # 3. low-address sessions (flat image small enough to ship: ties SFCWriter and sfc = ips applied)
    nlow = 250 if tier == "quick" else 6000
    for _ in range(nlow):
        copier = rng.random() < 0.3
        blocks = []
        prev_end = None
        for _i in range(rng.randint(1, 6)):
            n = rng.choice([0, 1, 2, 3, 5, 17, 40, 300]) if rng.random() < 0.93 else rng.choice([65534, 65535, 65536, 131071])
            if prev_end is not None and rng.random() < 0.4:
                a = max(-1, prev_end + rng.choice([0, 0, 1, 5, -1, -2, -n]))
            else:
                a = rng.choice([0, 1, 2, 7, 0x1FF, 0x200, 0x7FFF, 0x8000, 0xFFFF, 0x10000, rng.randrange(0, 0x20000)])
            if rng.random() < 0.03:
                a = -1
            blocks.append([a, _data_runs(rng, n)])
            prev_end = a + n
        out.append({"copier": copier, "blocks": blocks})
    # 4. rewrite histories: a small pool of overlapping / adjacent blocks written again and again (the same bytes at the
    #    same address after something else touched them, the original put back after a hook): the last write wins
    for _ in range(150 if tier == "quick" else 5000):
        copier = rng.random() < 0.3
        base = rng.choice([0, 0x10, 0x1F8, 0x7FF0, rng.randrange(0, 0x3000)])
        pool = []
        for _i in range(rng.randint(2, 4)):
            n = rng.randint(1, 12)
            pool.append([base + rng.randrange(0, 10), _data_runs(rng, n)])
        if rng.random() < 0.5:       # a block right behind another one, and another version of it
            a0, r0 = pool[0]
            n0 = sum(c for _, c in r0)
            pool.append([a0 + n0, _data_runs(rng, rng.randint(1, 6))])
            pool.append([a0 + n0, _data_runs(rng, rng.randint(1, 6))])
        if rng.random() < 0.4:       # a block that starts exactly one copier-header length behind the end of another one
            a0, r0 = pool[0]
            n0 = sum(c for _, c in r0)
            pool.append([a0 + n0 + 0x200, _data_runs(rng, rng.randint(1, 6))])
            pool.append([a0 - 0x200 - 3, _data_runs(rng, 3)] if a0 >= 0x203 else [a0 + n0 + 0x400, _data_runs(rng, 2)])
        blocks = [list(rng.choice(pool)) for _i in range(rng.randint(3, 7))]
        if rng.random() < 0.6 and len(blocks) >= 3:
            blocks[-1] = list(blocks[0])          # the first block verbatim again at the end
        gaps = [b for b in pool if b[0] == pool[0][0] + sum(c for _, c in pool[0][1]) + 0x200]
        if gaps:                                   # ... written right behind it, mostly with the copier header on
            blocks[:2] = [list(pool[0]), list(gaps[0])]
            copier = rng.random() < 0.7
        out.append({"copier": copier, "blocks": blocks})
    return out


def observe(case):
    from a816.writers import IPSWriter, SFCWriter
    blocks = [(a, _unrle(r)) for a, r in case["blocks"]]
    f = io.BytesIO()
    w = IPSWriter(f, copier_header=case["copier"])

    def session(wr):
        wr.begin()
        for a, b in blocks:
            wr.write_block(b, a)
        wr.end()
        return None

    status = observe_call(lambda: session(w))
    ob = {"status": status, "file": _rle(f.getvalue()), "nbytes": len(f.getvalue())}
    extent = max([a + len(b) for a, b in blocks] + [0])
    if extent <= SFC_LIMIT:
        g = io.BytesIO()
        s = SFCWriter(g)
        st = observe_call(lambda: session(s))
        ob["sfc"] = {"ok": _rle(g.getvalue())} if "ok" in st else st
    return ob


def _runs(r) -> str:
    return "[" + ";".join(f"({b},{n})" for b, n in r) + "]"


def _status(st) -> str:
    if "ok" in st:
        return "(OOk tt)"
    if "err" in st:
        return f"(OErr {st['err']})"
    return "OTimeout"


def coq_term(case, ob):
    blocks = "[" + ";".join(f"({C.z(a)},{_runs(r)})" for a, r in case["blocks"]) + "]"
    if "status" not in ob:
        return f"CW {C.cbool(case['copier'])} {blocks} [] OTimeout None"
    sfc = "None"
    if "sfc" in ob:
        s = ob["sfc"]
        sfc = f"(Some (OOk {_runs(s['ok'])}))" if "ok" in s else f"(Some {_status(s)})"
    return f"CW {C.cbool(case['copier'])} {blocks} {_runs(ob['file'])} {_status(ob['status'])} {sfc}"


def nontrivial_key(case, ob):
    if "status" not in ob or not any(r for _, r in case["blocks"]):
        return None
    return [case["copier"], C.short_hash(case["blocks"])]


def tags(case, ob):
    if "status" not in ob:
        return ["driver-error"]
    st = ob["status"]
    n = sum(sum(c for _, c in r) for _, r in case["blocks"])
    size = "empty" if n == 0 else "small" if n < 65535 else "split"
    return [f"{'copier' if case['copier'] else 'plain'}:{size}:{'ok' if 'ok' in st else st.get('err', '?')}"
            + (":sfc" if "sfc" in ob else "")]


def search(ctx, evaluate):
    """After a proof/correspondence break: every length x every boundary address x copier, single writes."""
    rng = ctx["rng"]
    cs = []
    for n in LENS + [3, 40]:
        for a in _addresses(n) + [0x10, 0x8000]:
            for copier in (False, True):
                cs.append({"copier": copier, "blocks": [[a, _data_runs(rng, n)]]})
    for c, o, corr_ok, spec_ok in evaluate(cs):
        if not spec_ok:
            return c, o
    return None
