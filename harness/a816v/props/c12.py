"""C12 — file and command-line front ends agree with the in-memory assembler."""
from __future__ import annotations

from .. import e2e, progen
from ..e2e import HEADER, CASE_TYPE, CHECK, MODEL_VIEW, SHARD, CASE_TIMEOUT, observe, coq_term, nontrivial_key, tags  # noqa: F401

ID = "C12"
THEOREMS = ["C12_config", "C12_sfc_is_ips", "C12_sfc_defined", "C12_copier", "C12_symfile",
            "C12_oracle_sound", "C12_file_matches", "C12_model_satisfies_oracles",
            "C12_defines_are_constants", "C12_define_literal", "C12_cli_defines",
            "TextLift_defines"]
PROOF_HEADER = "From A816 Require Import Properties.C12 Properties.TextLift."
RULE = ("the option lattice format {ips, sfc} x mapping {default, low, low2, high} x copier header {off, on} x -D defines "
        "{none, one, several} x generated programs valid under the mapping (offsets kept below 64 KiB so that flat images "
        "stay small): Program.assemble / assemble_as_patch on files for every point, the x816 command line in a subprocess "
        "for a subset; output file, status, symbol file compared with the model and, through an independent IPS patcher / "
        "image writer, with the in-memory blocks; non-trivial: the program assembles and writes bytes")
PROVED_NOTE = ("proved: the SFC image equals the IPS patch applied to an empty image for every block sequence; the copier "
               "header shifts offsets by exactly 0x200; a front end is the in-memory assembly followed by the writer; symbol "
               "file fields; the model's own output satisfies the run-time oracle c12_ok for every source (the independent decoder of the "
               "oracle reads back exactly the in-memory blocks), so the oracle cannot false-alarm on observations that agree with the "
               "model; pre-bound -D values ARE the statements NAME := VALUE in front of the program (whole result equal, any names "
               "and integers), and the command line's evaluation of its -D texts is the evaluator folded over the list with the "
               "root scope growing. Correspondence-only: option parsing (argparse), file I/O, exit status.")
MANIFEST = {
    "text": ("Coq theorems on the writer models (IPS = patch of exactly the blocks, SFC = that patch applied to an empty image, "
             "copier = +0x200) and on the front-end model; tied to cli.py/program.py/writers.py by an exhaustive run of the "
             "option lattice through the real file APIs and the CLI; oracle: the produced file, decoded by the independent "
             "Spec patcher, equals the in-memory blocks of the same source."),
    "note": ("Partial: argparse, process exit and file I/O are runtime glue covered by the lattice enumeration only. "
             "Trusted: Coq kernel/vm_compute, harness, CPython semantics as modelled. No axioms."),
    "technique": "Coq proof on writer/front-end models + exhaustive option-lattice correspondence + decoding oracle",
}

ORG = {"low": [0x008000, 0x008100, 0x018000, 0x808000, 0x818010], "low2": [0x808000, 0x808200, 0x818000],
       "high": [0x400000, 0x400100, 0xC00000, 0xC00800, 0x408000], None: [0x008000, 0x008040, 0x018000]}


def program(rng, mapping, defines):
    rom = mapping or "low"
    g = progen.Gen(rng, rom=rom, features={"blocks", "scopes", "macros", "if", "for", "data", "ascii", "symbols"})
    tree = g.program(rng.randrange(2, 8))
    tree[0] = ("org", rng.choice(ORG[mapping]))
    for k in defines:
        tree.insert(rng.randrange(1, len(tree) + 1), ("data", "dw", [k, f"{k} + 1"]))
        if rng.random() < 0.5:
            tree.insert(rng.randrange(1, len(tree) + 1), ("op", f"lda.w #{k}"))
        # uses that are evaluated while the source is expanded (conditions, loop bounds, := constants)
        r = rng.random()
        if r < 0.4:
            tree.insert(rng.randrange(1, len(tree) + 1), ("if", k, [("data", "db", ["0xA1"])], [("data", "db", ["0xB2", "0xB3"])]))
        elif r < 0.7:
            tree.insert(rng.randrange(1, len(tree) + 1), ("for", "zz_i", "0", f"{k} & 3", [("data", "db", ["zz_i"])]))
        else:
            tree.insert(rng.randrange(1, len(tree) + 1), ("assign", f"zz_from_{k}", f"{k} + 2"))
            tree.append(("data", "dl", [f"zz_from_{k}"]))
    # the same label name in sibling scopes: each definition is listed in the symbol file
    if rng.random() < 0.5:
        tree.append(("block", [("label", "zz_same"), ("op", "nop")]))
        tree.append(("block", [("op", "nop"), ("label", "zz_same"), ("data", "dw", ["zz_same"])]))
    # labels that share one address (stacked, an end label followed by a start label): each is listed
    if rng.random() < 0.6:
        tree.append(("label", "zz_stack_a"))
        tree.append(("label", "zz_stack_b"))
        tree.append(("block", [("label", "zz_stack_c"), ("op", "nop")]))
    if rng.random() < 0.3:
        tree.append(("org", rng.choice(ORG[mapping])))
        tree.append(("data", "db", ["1", "2", "3"]))
    return progen.render(tree) + "\n"


def cases(ctx):
    rng, tier = ctx["rng"], ctx["tier"]
    out = []
    reps = 2 if tier == "quick" else 40
    cli_every = 4 if tier == "quick" else 10
    n = 0
    for rep in range(reps):
        for fmt in ("ips", "sfc"):
            for mapping in (None, "low", "low2", "high"):
                for copier in (False, True):
                    for defines in ({}, {"FOO": 5}, {"FOO": 0x1234, "BAR_2": 0x7E0010, "zed": 0}):
                        if fmt == "sfc" and copier and rep > 0:
                            continue
                        n += 1
                        c = {"kind": f"{fmt}:{mapping}:{'copier' if copier else 'plain'}:{len(defines)}D",
                             "rom": mapping, "mapping": mapping, "format": fmt, "copier": copier, "defines": dict(defines),
                             "src": program(rng, mapping, defines), "api": True, "symfile": True,
                             "spec": {"t": "c12"}}
                        if n % cli_every == 0 or (rep == 0 and not copier and not defines):      # every format x mapping point once
                            c["cli"] = True
                            c["cli_defines"] = {k: (hex(v) if v > 9 else str(v)) for k, v in defines.items()}
                            if mapping is None:
                                c["rom"] = "low"       # the command line's default mapping
                        out.append(c)
    # writes over bytes already written (the later block lower / higher / inside): the last write wins in every output
    for mapping, base in (("low", 0x008000), ("high", 0x400000), ("low2", 0x808000)):
        for fmt in ("ips", "sfc"):
            for copier in ((False, True) if fmt == "ips" else (False,)):
                for a, na, b, nb in ((4, 4, 0, 6), (0, 6, 4, 4), (0, 8, 2, 3), (2, 3, 0, 8), (0, 4, 0, 4)):
                    src = (f"*={base + a:#08x}\n.db " + ", ".join(str(0x10 + i) for i in range(na)) + "\n"
                           f"*={base + b:#08x}\n.db " + ", ".join(str(0xA0 + i) for i in range(nb)) + "\n")
                    out.append({"kind": f"overlap:{fmt}:{mapping}:{a}:{b}", "rom": mapping, "mapping": mapping, "format": fmt,
                                "copier": copier, "defines": {}, "src": src, "api": True, "cli": a == 4, "spec": {"t": "c12"}})
    # a block whose image offset happens to equal the number of bytes written so far, after a non-sequential block
    for mapping, first, second in (("low", 0x018000, 0x008004), ("high", 0x410000, 0x400003), ("low", 0x008010, 0x008002)):
        for fmt in ("sfc", "ips"):
            n1 = second & 0xFF
            src = (f"*={first:#08x}\n.db " + ", ".join(str(0x10 + i) for i in range(n1)) + f"\n*={second:#08x}\n.db 0x99, 0x98\n"
                   f"*={first + 0x40:#08x}\n.db 0x77\n")
            out.append({"kind": f"offset-equals-count:{fmt}:{mapping}", "rom": mapping, "mapping": mapping, "format": fmt,
                        "copier": False, "defines": {}, "src": src, "api": True, "cli": fmt == "sfc", "spec": {"t": "c12"}})
    # code before the first *=: every front end starts at the same logical address (0) under every mapping
    for mapping in (None, "low", "low2", "high"):
        for fmt in ("ips", "sfc"):
            out.append({"kind": f"no-origin:{fmt}:{mapping}", "rom": mapping if mapping else None, "mapping": mapping, "format": fmt,
                        "copier": False, "defines": {}, "api": True, "cli": mapping is not None, "symfile": True,
                        "src": "start:\n.dw start\n.dl start\nlda.l start\nsecond:\n.dl second\n", "spec": {"t": "c12"}})
    # characters a front end might be tempted to normalise while reading the file (TAB inside a string and as
    # indentation, non-ASCII text, a last line without newline): every front end sees the same text.  (CR LF / lone CR
    # line ends are left out: open() in text mode turns them into LF before the assembler sees them, DESIGN S.6.)
    for mapping in ("low", "high"):
        org = ORG[mapping][0]
        for name, src in (("tab", f"*={org:#08x}\n\tstart:\n\t.ascii 'HP\t999'\n\t.ascii '\t'\nend:\n.dl end\n"),
                          ("tab8", f"*={org:#08x}\n.ascii 'a\tb\t\tc'\nend:\n.dl end"),
                          ("utf8", f"*={org:#08x}\n.ascii 'caf\u00e9 \u00fc'\nend:\n.dl end ; \u00e9\n")):
            for fmt in ("ips", "sfc"):
                out.append({"kind": f"verbatim-text:{name}:{fmt}", "rom": mapping, "mapping": mapping, "format": fmt, "copier": False,
                            "defines": {}, "src": src, "api": True, "cli": fmt == "ips", "symfile": True, "spec": {"t": "c12"}})
    # a program that declares its own address mapping (.map), through every front end and mapping option
    usermap = (".map identifier=1 bank_range=0x70,0x7d addr_range=0x8000,0xffff mask=0x8000\n"
               ".map identifier=2 bank_range=0x00,0x3f addr_range=0x8000,0xffff mask=0x8000 mirror_bank_range=0x80,0xbf\n"
               "*=0x708000\nzz_hi:\n.db 1, 2\n.dl zz_hi\n*=0x018000\nzz_lo:\nnop\n.dl zz_lo\n")
    for mapping in (None, "low", "low2", "high"):
        for fmt in ("ips", "sfc"):
            for copier in ((False, True) if fmt == "ips" else (False,)):
                out.append({"kind": f"user-map:{fmt}:{mapping}", "rom": mapping, "mapping": mapping, "format": fmt, "copier": copier,
                            "defines": {}, "src": usermap, "api": True, "cli": mapping is not None and not copier, "symfile": True,
                            "spec": {"t": "c12"}})
    # the command line's --dump-symbols switch only prints: same file, same status
    for mapping in ("low", "high"):
        for fmt in ("ips", "sfc"):
            out.append({"kind": f"dump-symbols:{fmt}:{mapping}", "rom": mapping, "mapping": mapping, "format": fmt, "copier": False, "defines": {},
                        "src": (f"*={ORG[mapping][0]:#08x}\nstart:\njmp.w next\nnext:\nbra start\n.dw next & 0xFFFF\n.scope zz_s {{\nzz_l:\nzz_v = 3\n}}\n"
                                ".dl zz_s.zz_l\n.db zz_s.zz_v\n{\nzz_in:\n.dw zz_in & 0xFFFF\n}\n"),
                        "api": True, "cli": True, "dump_symbols": True, "symfile": True, "spec": {"t": "c12"}})
            # ... also when top-level code in front of the first scope uses names that the LAST scope of the program defines too
            head = f"*={ORG[mapping][0]:#08x}\nzz_delay = 5\njmp.w zz_done\n.dw zz_done & 0xFFFF\n.db zz_delay\nzz_done:\nnop\n.macro zz_wait(zz_delay) {{\n.db zz_delay\n}}\n"
            for name, tail in (("block-last", "zz_wait(9)\n{\nnop\nzz_done:\nzz_delay = 7\n.db zz_delay\nrts\n}\n"),
                               ("macro-last", "{\nnop\nzz_done:\nrts\n}\nzz_wait(9)\n"),
                               ("scope-last", "zz_wait(9)\n.scope zz_en {\nzz_delay = 8\nzz_done:\nrts\n}\n")):
                out.append({"kind": f"dump-symbols:{name}:{fmt}:{mapping}", "rom": mapping, "mapping": mapping, "format": fmt, "copier": False,
                            "defines": {}, "src": head + tail, "api": True, "cli": True, "dump_symbols": True, "symfile": True, "spec": {"t": "c12"}})
    # the main source in a sub-directory, files it reads named relative to the working directory (a file of the same
    # relative name beside the source is NOT the one meant)
    for fmt in ("ips", "sfc"):
        out.append({"kind": f"source-in-subdir:{fmt}", "rom": "low", "mapping": "low", "format": fmt, "copier": False, "defines": {},
                    "fname": "src/main.s", "files": {"assets/pal.bin": [1, 2, 3, 4], "src/assets/pal.bin": [9, 9], "assets/t.tbl": {"tbl": [("a", [0x41])]},
                                                      "src/assets/t.tbl": {"tbl": [("a", [0x7A])]}, "inc/part.s": ".incbin 'assets/pal.bin'\n",
                                                      "src/inc/part.s": "nop\n"},
                    "src": "*=0x008000\n.incbin 'assets/pal.bin'\n.table 'assets/t.tbl'\n.text 'a'\n.include 'inc/part.s'\nend:\n.dl end\n",
                    "api": True, "cli": True, "symfile": True, "spec": {"t": "c12"}})
    # programs that write no byte at all: the output is still a complete file of its format (PATCH + EOF / an empty image)
    for mapping in (None, "low", "high"):
        for name, src in (("empty", ""), ("symbols-only", "zz_a := 1\nzz_b = zz_a + 1\n"), ("labels-only", "*=0x408000\nzz_l:\nzz_m:\n"),
                          ("compiled-out", "*=0x408000\n.if 0 {\nnop\n}\n.for zz_i := 0, 0 {\nnop\n}\n"), ("comment-only", "; nothing\n/* at all */\n")):
            for fmt in ("ips", "sfc"):
                for copier in ((False, True) if fmt == "ips" else (False,)):
                    out.append({"kind": f"no-output:{name}:{fmt}", "rom": mapping, "mapping": mapping, "format": fmt, "copier": copier,
                                "defines": {}, "src": src, "api": True, "cli": mapping is not None and name != "empty", "symfile": True,
                                "count_empty": True, "spec": {"t": "c12"}})
    # one contiguous block longer than an IPS record can hold (split into records), with and without the copier header
    blob = [(i * 7 + 3) & 0xFF for i in range(0x10005)]     # two records; stays below the size limit for shipped files
    for copier in (False, True):
        out.append({"kind": f"long-block:{copier}", "rom": "low", "mapping": "low", "format": "ips", "copier": copier, "defines": {},
                    "files": {"big.bin": blob}, "src": "*=0x008000\nstart:\n.incbin 'big.bin'\nend:\n.dl start, end\n",
                    "api": True, "cli": copier, "spec": {"t": "c12"}})
    # what -D means: NAME=VALUE on the command line is the constant `NAME := VALUE` in front of the source, visible to
    # the whole program (blocks, macro bodies, scopes, loop bounds, conditions): the pre-bound run equals that twin
    for i in range(12 if tier == "quick" else 200):
        mapping = rng.choice(["low", "low2", "high"])
        defines = rng.choice([{"FOO": 5}, {"FOO": 0x1234, "BAR_2": 0x7E0010, "zed": 0}, {"K9": 3}])
        body = program(rng, mapping, defines)
        first = next(iter(defines))
        body += (f"{{\n.dw {first}\n.scope zz_ds {{\n.db {first} & 0xFF\n}}\n}}\n.macro zz_dm() {{\n.dl {first}\n}}\nzz_dm()\n"
                 f".for zz_di := 0, {first} & 3 {{\n.db zz_di\n}}\n.if {first} {{\n.db 0xD1\n}} else {{\n.db 0xD0\n}}\n")
        # the -D name reused as an inner definition (block constant, macro parameter, loop counter, label of a named
        # scope): the inner definition wins inside its scope and the -D value is back behind it
        sh = i % 5
        if sh == 0:
            body += f"{{\n{first} := 0x77\n.dw {first}\n{{\n.db {first} & 0xFF\n}}\n}}\n.dw {first}\n"
        elif sh == 1:
            body += f".macro zz_sh({first}) {{\n.dw {first}\n.db {first} + 1\n}}\nzz_sh(0x66)\n.dw {first}\nzz_sh({first} + 2)\n"
        elif sh == 2:
            body += f".for {first} := 1, 3 {{\n.db {first}\n}}\n.dw {first}\n"
        elif sh == 3:
            body += f".scope zz_sc {{\nnop\n{first}:\n.dl {first}\n}}\n.dl {first}, zz_sc.{first}\n"
        prefix = "".join(f"{k} := {v:#x}\n" for k, v in defines.items())
        out.append({"kind": f"define-twin:{mapping}:{len(defines)}D:sh{sh}", "rom": mapping, "mapping": mapping, "format": "ips", "copier": False,
                    "defines": dict(defines), "src": body, "api": True, "cli": i < 10 or i % 4 == 0,
                    "cli_defines": {k: (hex(v) if v > 9 else str(v)) for k, v in defines.items()},
                    "twin": {"src": prefix + body, "rom": mapping, "files": {}}, "spec": {"t": "twin", "labels": True}})
    # -D values given as expressions, a later one using an earlier one, and malformed ones (the command line must fail)
    for texts, vals, ok in (({"A1": "0x10", "B2": "A1 + 2", "C3": "(A1 | B2) << 1"}, {"A1": 0x10, "B2": 0x12, "C3": 0x24}, True),
                            ({"A1": "~0xF0 & 0xFF", "B2": "-1 + 3"}, {"A1": 0x0F, "B2": 2}, True),
                            ({"A1": "1 ?"}, {}, False), ({"A1": "UNDEF + 1"}, {}, False), ({"A1": "(1"}, {}, False)):
        names = list(texts)
        src = "*=0x008000\n" + "".join(f".dw {n}\n" for n in names) + (f".if {names[0]} {{\n.db 1\n}}\n" if ok else "")
        out.append({"kind": "cli-define-expressions", "rom": "low", "mapping": "low", "format": "ips", "copier": False,
                    "defines": dict(vals), "cli_defines": dict(texts), "api": ok, "cli": True, "src": src,
                    "spec": {"t": "c12"} if ok else {"t": "c14", "must_fail": True}})   # a malformed -D must fail the command line
    # -D with an expression value on the command line
    out.append({"kind": "cli-define-expression", "rom": "low", "mapping": "low", "format": "ips", "copier": False,
                "defines": {"FOO": 0x12}, "cli_defines": {"FOO": "0x10+2"}, "api": True, "cli": True,
                "src": "*=0x008000\n.dw FOO\nlda.b #FOO\n", "spec": {"t": "c12"}})
    return out
