"""C13 — .include_ips reader.  Correspondence of IncludeIpsNode.__init__ with Model/Ips.v (read_ips); spec
oracle = the same file read by the independent record parser of Spec/IpsFormat.v (Oracle/C13o.v); theorems
Properties/C13.v."""
from __future__ import annotations

import io
import itertools
import os
import shutil
import tempfile

from .. import common as C
from .. import core
from ..obs import observe_call, obs_term
from . import asm

ID = "C13"
HEADER = "From A816 Require Import Oracle.Coreo Model.Ips Oracle.C13o.\n" + asm.TABLES
CASE_TYPE = "case"
CHECK = "check T"
MODEL_VIEW = "model_view T"
SHARD = 48
THEOREMS = ["C13_roundtrip", "C13_roundtrip_trailing", "C13_reject_header", "C13_reject_truncated", "C13_fuel",
            "C13_writer_reader", "C13_transparent", "C13_reemitted", "C13_codegen",
            # on source text / whole programs (Properties/C13Text.v)
            "C13_node_insert", "C13_program_insert", "C13_program_rejected", "C13_text_front", "C13_text",
            "C13_text_records", "C13_text_rejected",
            # the patch of a program, included back, rebuilds the program's image
            "C13_patch_blocks_read_back", "C13_patch_blocks_roundtrip", "C13_patch_blocks_sfc", "C13_include_only_program",
            "C13_patch_program_roundtrip", "C13_patch_text_roundtrip",
            "C13_oracle_parse_read_agree", "C13_oracle_model_passes", "C13_oracle_corr_implies_spec_file", "C13_oracle_corr_implies_spec", "C13_oracle_non_byte"]
PROOF_HEADER = "From A816 Require Import Properties.C13Oracle Properties.C13 Properties.C13Text."


def instantiate(gen_q):
    """Per run: the keyword the source-text theorems need is in the lexicon regenerated from /repo."""
    lx = "(mk_lexicon Run.GenLexicon.mnemonics Run.GenLexicon.mnemonics_without_operand Run.GenLexicon.keywords)"
    text = ("From A816 Require Import Model.Scanner Model.Parser.\nRequire Import Run.GenLexicon.\n"
            f"Lemma C13_live_keyword : mem_str k_include_ips (lx_keywords {lx}) = true.\nProof. vm_compute. reflexivity. Qed.\n")
    text += ("From A816 Require Import Model.Assemble Proofs.LabelText.\nRequire Import Run.GenBuses Run.GenOpcodes.\n"
             "Definition L13 : live := {| lv_low := Run.GenBuses.low_rom_bus; lv_high := Run.GenBuses.high_rom_bus; "
             "lv_busmap := Run.GenBuses.bus_mapping; lv_optable := Run.GenOpcodes.opcode_table; "
             "lv_prec := Run.GenOpcodes.operator_precedence; "
             f"lv_lex := {lx} |}}.\n"
             "Lemma C13_live_tables : tables_ok L13 {| cf_rom := None; cf_defines := [] |}.\n"
             "Proof. vm_compute. repeat split; try reflexivity; auto 20. Qed.\n")
    return text, ["C13_live_keyword", "C13_live_tables"]
RULE = ("IncludeIpsNode(path, Resolver(), delta) on patch files written to a scratch directory: files encoded by the "
        "harness from record lists (plain incl. 65535-byte, run-length incl. run 65535, adjacent/overlapping, offsets at "
        "0, 0xFFFFFF and around 0x454F46, data containing 'EOF'), files produced by the real IPSWriter, files whose EOF "
        "marker sits across a read-buffer boundary (4096/8192/...), every strict prefix of small patches, damaged or missing "
        "headers; deltas None, 0, +-1, +-0x200, -offset, +-2^40; node.blocks or the exception compared with the model; plus the "
        "directive placed inside programs (start/middle/end of a run, after @= to ROM and RAM, between *=, in blocks/macros/loops) "
        "under the whole-assembly model and the writer-protocol oracle; "
        "non-trivial when the file has at least one record; distinct by (file, delta)")
PROVED_NOTE = ("proved for all record lists and all deltas (induction): reading PATCH + encoded valid records + EOF yields "
               "every record's bytes at offset + delta in order; a file without the PATCH header and every strict prefix of a "
               "well-formed file is rejected; the reader loop never runs out of fuel; reading what the IPS writer wrote "
               "returns the written blocks cut into their records. Correspondence-only: that IncludeIpsNode.__init__ computes "
               "what read_ips computes; the node's transparency inside a program (C13_transparent) belongs to the node model.")
EXHAUSTIVE = {"quick": False, "thorough": False}
MANIFEST = {
    "text": ("IPS reader of .include_ips proved in Coq for every list of valid records (plain and run-length) and every "
             "signed delta: the blocks handed to the writer are exactly each record's bytes at its offset plus delta, in "
             "order; files without header and truncated files are rejected. Tied to IncludeIpsNode.__init__ by a "
             "correspondence run on generated patches, patches written by the real IPSWriter, all truncation points of "
             "small patches and buffer-boundary regressions."),
    "note": ("Trusted: Coq kernel + vm_compute; correspondence harness; CPython struct.unpack/file.read as modelled; "
             "hand-written Spec/IpsFormat.v. No axioms."),
    "technique": "Coq proof over a Gallina model + differential correspondence with vm_compute",
}

SENT = 0x454F46
TOP = 1 << 24


def _rle(b: bytes) -> list[list[int]]:
    return [[k, sum(1 for _ in g)] for k, g in itertools.groupby(b)]


def _unrle(runs) -> bytes:
    return b"".join(bytes([b]) * n for b, n in runs)


# ---- an encoder written for this harness (not the implementation's)

def _be(v: int, n: int) -> bytes:
    return bytes((v >> (8 * (n - 1 - i))) & 0xFF for i in range(n))


def _enc(rec) -> bytes:
    if rec[0] == "plain":
        _, off, data = rec
        return _be(off, 3) + _be(len(data), 2) + data
    _, off, run, val = rec
    return _be(off, 3) + b"\0\0" + _be(run, 2) + bytes([val])


def _patch(recs) -> bytes:
    return b"PATCH" + b"".join(_enc(r) for r in recs) + b"EOF"


def _offset(rng) -> int:
    r = rng.random()
    if r < 0.35:
        return rng.choice([0, 1, 2, 0x1FF, 0x200, 0xFFFF, 0x10000, SENT - 1, SENT + 1, SENT - 0x200, TOP - 1, TOP - 2,
                           0x454F00, 0x450000, 0x004F46, 0x45004F])
    if r < 0.7:
        return rng.randrange(0, 0x1000)
    o = rng.randrange(0, TOP)
    return o if o != SENT else o + 1


def _data(rng, n: int) -> bytes:
    r = rng.random()
    if n > 200:
        # few runs, cheap to ship
        cuts = sorted({0, n} | {rng.randrange(1, n) for _ in range(rng.randint(0, 3))})
        return b"".join(bytes([rng.randrange(256)]) * (hi - lo) for lo, hi in zip(cuts, cuts[1:]))
    if r < 0.25:
        return bytes(rng.choice(b"EOFPATCH\0") for _ in range(n))
    return bytes(rng.randrange(256) for _ in range(n))


def _record(rng, prev, big_ok=True):
    off = _offset(rng)
    if prev is not None and rng.random() < 0.35:
        poff, plen = prev
        off = poff + plen + rng.choice([0, 0, 0, 1, -1])       # adjacent / gap / overlapping
        if not (0 <= off < TOP) or off == SENT:
            off = _offset(rng)
    if rng.random() < 0.3:
        run = rng.choice([1, 2, 3, 255, 256, 65535]) if rng.random() < 0.6 else rng.randint(1, 65535)
        return ("rle", off, run, rng.choice([0, 0x45, 0xFF, rng.randrange(256)])), (off, run)
    r = rng.random()
    if r < 0.06 and big_ok:
        n = rng.choice([65535, 65534, 32768, 4096])
    elif r < 0.3:
        n = rng.choice([1, 2, 3])
    else:
        n = rng.randint(1, 24)
    return ("plain", off, _data(rng, n)), (off, n)


def _records(rng, k, big_ok=True):
    out, prev = [], None
    for _ in range(k):
        rec, prev = _record(rng, prev, big_ok)
        out.append(rec)
    return out


def _delta(rng, recs):
    r = rng.random()
    if r < 0.2:
        return None
    if r < 0.75:
        return rng.choice([0, 1, -1, 0x200, -0x200, 0x8000, -0x8000])
    if r < 0.9 and recs:
        return -recs[0][1] + rng.choice([0, 0, -1, 1])
    return rng.choice([1 << 40, -(1 << 40), (1 << 24), -(1 << 24), rng.randrange(-(1 << 30), 1 << 30)])


def _fill_to(rng, total: int):
    """Plain records whose encodings add up to exactly `total` bytes (total >= 6)."""
    recs = []
    left = total
    while left > 0:
        take = min(left, 5 + 65535)
        if 0 < left - take < 6:
            take -= 6
        n = take - 5
        recs.append(("plain", rng.randrange(0, 0x400000), bytes([rng.randrange(256)]) * n))
        left -= take
    return recs


def cases(ctx):
    from a816.writers import IPSWriter
    rng, tier = ctx["rng"], ctx["tier"]
    out = []

    def add(kind, file: bytes, delta):
        out.append({"kind": kind, "file": _rle(file), "delta": delta})

    # 1. well-formed patches from record lists
    n1 = 450 if tier == "quick" else 15000
    add("wf", _patch([]), None)
    add("wf", _patch([]), 5)
    for _ in range(n1):
        recs = _records(rng, rng.choice([1, 1, 2, 3, 4, 6]))
        add("wf", _patch(recs), _delta(rng, recs))
    # every delta on one fixed patch
    fixed = [("plain", 0x123456, b"EOF\x01"), ("rle", 0x123456 + 4, 7, 0x46), ("plain", 0, b"\x00")]
    for d in [None, 0, 1, -1, 0x200, -0x200, -0x123456, -0x123457, 1 << 40, -(1 << 40), TOP, SENT, -SENT]:
        add("wf", _patch(fixed), d)
    # 2. patches produced by the real IPSWriter (ties C11 to C13)
    n2 = 120 if tier == "quick" else 4000
    for _ in range(n2):
        copier = rng.random() < 0.4
        blocks = []
        big = True
        for _i in range(rng.randint(1, 5)):
            r = rng.random()
            if r < 0.15 and big:
                n = rng.choice([65534, 65535, 65536, 131070, 131071, 200000])
                big = False
            elif r < 0.3:
                n = 0
            else:
                n = rng.randint(1, 30)
            a = rng.choice([0, 1, 0x1FF, 0x8000, SENT - 65535 + 1, SENT + 1, rng.randrange(0, TOP - 300000)])
            if n and any(a + (0x200 if copier else 0) + j * 65535 == SENT for j in range((n - 1) // 65535 + 1)):
                a += 1
            blocks.append((a, _data(rng, n)))
        f = io.BytesIO()
        w = IPSWriter(f, copier_header=copier)
        try:
            w.begin()
            for a, b in blocks:
                w.write_block(b, a)
            w.end()
        except Exception:
            continue            # a writer that refuses representable blocks is C11's finding, not a reader input
        add("writer", f.getvalue(), rng.choice([None, 0, -0x200, 0x200, 1]))
    # 3. the EOF marker across a read-buffer boundary (regression: peek() used to return 1-2 bytes there)
    bufs = [4096, 8192] + ([16384, 65536, 131072] if tier == "thorough" else [65536])
    for b in bufs:
        for start in (b - 3, b - 2, b - 1, b, b + 1):           # file offset where "EOF" starts
            recs = _fill_to(rng, start - 5)
            add("straddle", _patch(recs), rng.choice([None, 3]))
            add("straddle", _patch(recs + [("rle", 5, 9, 1)]), None)
    # 4. every strict prefix of small patches, damaged headers
    n4 = 14 if tier == "quick" else 300
    smalls = [fixed, [("rle", 1, 1, 1)], [("plain", 0x454F00, b"EOFEOF")], []]
    for _ in range(n4):
        smalls.append(_records(rng, rng.choice([1, 2, 3]), big_ok=False))
    for recs in smalls:
        recs = [r if r[0] == "plain" or r[2] < 1000 else ("rle", r[1], 3, r[3]) for r in recs]
        p = _patch(recs)
        d = _delta(rng, recs)
        for cut in range(len(p)):
            add("truncated", p[:cut], d)
    big = _patch([("plain", 7, b"\x05" * 65535), ("rle", 9, 65535, 2)])
    for cut in (5, 7, 8, 9, 10, 11, 65535, 65544, 65545, 65546, 65550, 65552, 65553, 65554, 65555):
        add("truncated", big[:cut], 0)
    good = _patch(fixed)
    for hd in [b"", b"P", b"PATC", b"patch", b"PATCX", b"XATCH", b"IPS32", b"\0PATCH", b"EOF", b"PATC\0"]:
        add("header", hd + good[5:], None)
        add("header", hd, None)
    add("header", good[5:], 0)
    add("header", b"PATCHEOF"[1:], 0)
    # 5. bytes after the marker (no spec claim; model and implementation ignore them)
    for tail in (b"\0", b"\x12\x34\x56", b"EOF", good):
        add("trailing", good + tail, 1)
    # 9. the directive inside a program: every placement (start / middle / end of a run, after @= to ROM and RAM, between
    #    two *=, inside a block / macro / loop), any records and delta; the surrounding output must be unaffected
    def patch_of(recs):
        return list(_patch([("plain", o, d) for o, d in recs]))
    placements = [
        ".db 0xA1\nlda.w 0x1234\nmid:\n.db 0xA2\n{INC}after:\n.db 0xA3\nrts\nlast:\n.dl mid\n.dl after\n",
        "{INC}.db 1, 2\n", ".db 1, 2\n{INC}", ".db 1\n{INC}*=ORG2\n.db 2\n{INC}.db 3\n",
        ".db 1\n@=0x7e2000\n.db 2\n{INC}.db 3\nrts\n", "lda.w 0x1234\n@=RELOC\nlda.w 0x1234\n{INC}lda.w 0x1234\nrts\n",
        ".db 1\n{\n.db 2\n{INC}.db 3\n}\n.db 4\n", ".macro zz_p() {\n.db 7\n{INC}.db 8\n}\n.db 1\nzz_p()\n.db 2\n",
        ".for zz_i := 0, 2 {\n.db zz_i\n{INC}}\n.db 9\n", ".if 1 {\n.db 5\n{INC}}\n.db 6\n",
        # ONE directive generated several times with a different delta each time (macro parameter / := constant)
    ]
    # ONE directive generated several times with a different delta each time (macro parameter), or twice through a splice:
    # (body, the deltas of the successive expansions relative to DELTA)
    multi = [
        (".macro zz_pb(d) {\n.include_ips 'p.ips', d + DELTA\n}\n.db 1\nzz_pb(0)\nzz_pb(0x8000)\nzz_pb(0x20)\n.db 2\n", [0, 0x8000, 0x20]),
        (".macro zz_pc(c) {\n{{c}}\n{{c}}\n}\nzz_pc({\n.include_ips 'p.ips', DELTA\n})\n.db 3\n", [0, 0]),
        (".macro zz_pd(d) {\n.include_ips 'p.ips', DELTA + d * 0x100\n}\nzz_pd(3)\n.db 4\nzz_pd(1)\nzz_pd(2)\n", [0x300, 0x100, 0x200]),
    ]
    for rom, org, reloc in (("low", 0x018000, 0x80A000), ("high", 0x410000, 0x428000)):
        for recs, delta in (([(0x20000, b"\xde\xad\xbe\xef")], 0), ([(0x300, b"ab"), (0x500, b"cdef")], -0x200),
                            ([(0x200, b"zz")], -0x200), ([(0, b"q")], 0x10), ([(5, b"12"), (5, b"34")], 0), ([], 0)):
            for body in placements:
                if tier == "quick" and rng.random() < 0.4:
                    continue
                src = (f"*={org:#08x}\n" + body.replace("DELTA", str(delta)).replace("{INC}", f".include_ips 'p.ips', {delta}\n")
                       .replace("ORG2", f"{org + 0x10000:#08x}").replace("RELOC", f"{reloc:#08x}"))
                out.append({"kind": "in-program", "prog": True, "rom": rom, "trace": True, "files": {"p.ips": patch_of(recs)},
                            "spec": {"t": "blocks", "high": rom == "high"}, "src": src})
            if delta >= 0:
                for body, ds in multi:
                    src = f"*={org:#08x}\n" + body.replace("DELTA", str(delta))
                    expected = [[list(d_), o + delta + extra] for extra in ds for o, d_ in recs]
                    out.append({"kind": "in-program-multi", "prog": True, "rom": rom, "trace": True, "files": {"p.ips": patch_of(recs)},
                                "spec": {"t": "blocks", "high": rom == "high", "ips_expected": expected}, "src": src})
    return out


def observe(case):
    if case.get("prog"):
        return core.observe(case)
    from a816.parse.ast.expression import expr_to_ast
    from a816.symbols import Resolver
    from .. import asmdriver
    # the node class the code generator builds for `.include_ips` (found by behaviour, whatever it is called)
    IncludeIpsNode = asmdriver.node_roles()["IncludeIpsNode"]
    C.WORK.mkdir(exist_ok=True)
    d = tempfile.mkdtemp(dir=C.WORK, prefix="c13-")
    try:
        path = os.path.join(d, "patch.ips")
        with open(path, "wb") as f:
            f.write(_unrle(case["file"]))
        delta = case["delta"]
        ast = None if delta is None else expr_to_ast(str(delta))
        return observe_call(lambda: [[a, _rle(b)] for a, b in IncludeIpsNode(path, Resolver(), ast).blocks])
    finally:
        shutil.rmtree(d, ignore_errors=True)


def _runs(r) -> str:
    return "[" + ";".join(f"({b},{n})" for b, n in r) + "]"


def coq_term(case, ob):
    if case.get("prog"):
        return f"CP ({core.coq_term(case, ob)})"
    delta = case["delta"] or 0
    return (f"CR {_runs(case['file'])} {C.z(delta)} "
            f"{obs_term(ob, lambda bl: '[' + ';'.join(f'({C.z(a)},{_runs(r)})' for a, r in bl) + ']')}")


def nontrivial_key(case, ob):
    if case.get("prog"):
        return core.nontrivial_key(case, ob)
    if "ok" in ob and not ob["ok"]:
        return None
    return [C.short_hash(case["file"]), case["delta"]]


def tags(case, ob):
    return [f"{case['kind']}:{'ok' if 'ok' in ob else ob.get('err', 'driver-error')}"]


def search(ctx, evaluate):
    """After a proof/correspondence break: one record of each kind x every delta, and their prefixes."""
    cs = []
    for recs in ([("plain", 0x10, b"ab")], [("rle", 0x10, 4, 9)], [("plain", 0x10, b"ab"), ("rle", 0x12, 4, 9)],
                 [("plain", 0xFFFFFF, b"\x01" * 300)]):
        p = _patch(recs)
        for d in (None, 0, 1, -1, 0x200, -0x200, -0x10):
            cs.append({"kind": "wf", "file": _rle(p), "delta": d})
        for cut in range(len(p)):
            cs.append({"kind": "truncated", "file": _rle(p[:cut]), "delta": 0})
    for c, o, corr_ok, spec_ok in evaluate(cs):
        if not spec_ok:
            return c, o
    return None
