"""C14 — a failed assembly is never reported as success."""
from __future__ import annotations

from .. import e2e, progen
from ..e2e import HEADER, CASE_TYPE, CHECK, MODEL_VIEW, SHARD, CASE_TIMEOUT, observe, coq_term, nontrivial_key, tags  # noqa: F401

ID = "C14"
THEOREMS = ["C14_status", "C14_string_api", "C14_cli", "C14_success_writes", "C14_failure_classes",
            "C14_oracle_sound", "C14_oracle_domain"]
RULE = ("fault enumeration: valid generated programs x a definite error of every class (bad character, unterminated "
        "string/comment, unknown keyword, syntax error, undefined symbol in operand / data / *=, undefined macro, too few "
        "arguments, unsupported mode, unsupported width, out-of-range branch, unmapped *=, running off the last mapped bank, missing .include/.incbin/.table/"
        ".include_ips file, malformed patch, RAM branch, phase error) injected at a random statement position, the one-statement "
        "faults also inside each enclosing construct (.if true/else/negative/nested, block, scope, macro, .for, .if in a macro), x entry point "
        "(string API, assemble, assemble_as_patch, x816 command line in a subprocess); plus the unmodified programs; "
        "non-trivial: every case (each is one program x entry points)")
PROVED_NOTE = ("proved on the front-end model (Model/Assemble.v): status 0 / None / exit 0 and the success message are given "
               "exactly when the assembly succeeded and the writer accepted every block; every failure class maps to a "
               "non-zero status or an exception; the run-time oracle c14_ok is sound on observations that agree with the model "
               "(no false alarm) whenever the writer accepts the blocks, and objects exactly when it refuses them (domain made explicit). The weight is the tie: model statuses are compared with the real return "
               "values, exit codes and log output (correspondence), and the oracle checks the implementation directly. "
               "Process exit and logging are runtime behaviour: partial in that sense.")
MANIFEST = {
    "text": ("Coq theorems on the status functions of the front-end model composed with the full pipeline model (scanner, "
             "parser, code generation, passes, writers); tied to program.py/cli.py by an enumeration of definite faults x "
             "positions x entry points (subprocess for the CLI) compared with the model; oracle on the implementation: a planted "
             "fault reaches every caller, and success is announced exactly with status 0 / None."),
    "note": ("Partial: argparse, process exit status and logging are runtime glue, modelled as a transcript and covered by the "
             "fault enumeration only. Trusted: Coq kernel/vm_compute, harness, CPython semantics as modelled. No axioms."),
    "technique": "Coq proof on the status model + exhaustive fault enumeration against the model and an oracle",
}

FAULTS = [
    ("bad-character", "$"), ("bad-character", "lda #1 ?"), ("unterminated-string", ".ascii 'abc"),
    ("unterminated-comment", "/* never closed"), ("unknown-keyword", ".bogus 1"), ("bad-size", "lda.q #1"),
    ("bad-index", "lda 1,z"), ("syntax", "lda (1"), ("syntax", "}"), ("syntax", ".db 1, ,"), ("syntax", "x ="),
    ("syntax", ".macro 1"), ("syntax", ".if"), ("syntax", "jmp [1"), ("syntax", "lda (1,x),y"),
    ("undefined-operand", "lda zz_nowhere"), ("undefined-operand", "lda.w #zz_nowhere"),
    ("undefined-data", ".dw zz_nowhere"), ("undefined-data", ".db 1, zz_nowhere + 1"), ("undefined-org", "*=zz_nowhere"),
    ("undefined-macro", "zz_nomacro(1, 2)"), ("too-few-arguments", ".macro zz_m(a, b) {\n.db a, b\n}\nzz_m(1)"),
    ("unterminated-string-backslash", ".ascii 'C:\\\nnop ; '"), ("unterminated-string-backslash", ".ascii 'dir\\\n.ascii 'next'"),
    ("unterminated-string-backslash", ".text 'a\\\n; it's\nnop"),
    ("unsupported-mode", "stz (1),y"), ("unsupported-mode", "jmp 1,x"),
    # an index register behind a mode that has no indexed form at all, or not this one for the mnemonic
    ("unsupported-index", "lda #0x10,x"), ("unsupported-index", "ldx.w #0x1234, y"), ("unsupported-index", "rep #0x30,x"),
    ("unsupported-index", "inc 0x10,y"), ("unsupported-index", "jmp [0x10],x"), ("unsupported-index", "lda.b #1,s"),
    ("unsupported-index", "sta [0x10],x"), ("unsupported-index", "jsr (0x1234),y"), ("unsupported-width", "rep.w #0x1234"),
    ("unsupported-width", "ldx.l 0x123456"), ("branch-range", "bra zz_far\n.incbin 'pad200.bin'\nzz_far:"),
    ("unmapped-org", "*=0x7d0000\nnop"), ("unmapped-org", "*=0x7d0000\nnop"), ("unmapped-org", "*=0x7d0000\nnop"),
    ("unmapped-org", "*=0x7d0000\nnop"), ("missing-include", ".include 'zz_missing.s'"),
    ("missing-incbin", ".incbin 'zz_missing.bin'"), ("missing-table", ".table 'zz_missing.tbl'"),
    ("missing-ips", ".include_ips 'zz_missing.ips', 0"), ("malformed-patch", ".include_ips 'bad.ips', 0"),
    ("text-without-table", ".text 'hello'"), ("ram-branch", "zz_here:\n@=0x7e0000\nbra zz_here"),
    ("code-lookup", "{{zz_nocode}}"), ("struct", ".struct zz_s {\n}"), ("value-too-wide", "lda.l 0x1000000"),
    ("unknown-operator", ".db 1 == 1"), ("map-missing-field", ".map identifier=9"),
    ("branch-range-plus128", "bne zz_f128\n.incbin 'pad128.bin'\nzz_f128:"),
    ("branch-range-minus129", "zz_b129:\n.incbin 'pad127.bin'\nbcc zz_b129"),
    # the same kinds of error inside a file brought in with .include
    ("included:bad-index", ".include 'inc_badindex.s'"), ("included:unterminated-string", ".include 'inc_string.s'"),
    ("included:syntax", ".include 'inc_syntax.s'"), ("included:undefined", ".include 'inc_undef.s'"),
    ("included:nested-bad-suffix", ".include 'inc_outer.s'"),
    # (the model has no undecodable files - its files are strings -, so these two are judged by the oracle alone)
    ("included:not-utf8", ".include 'inc_notutf8.s'"), ("included:not-utf8", ".include 'inc_latin.s'"),
    # an undefined name on the right of `=` / as a macro argument whose parameter is never used, or shadows an outer symbol
    ("undefined-symbol-rhs", "zz_s = zz_nowhere + 1"), ("undefined-symbol-rhs-used", "zz_s2 = zz_nowhere\nlda.w #zz_s2"),
    ("undefined-deferred-arg-unused", ".macro zz_mu(a) {\nnop\n}\nzz_mu(zz_nowhere)"),
    ("undefined-deferred-arg-shadowing", "zz_value = 0x0F\n.macro zz_set(zz_value) {\nlda.b #zz_value\n}\nzz_set(zz_nowhere)"),
    ("undefined-symbol-rhs-shadowing", "zz_o = 5\n{\nzz_o = zz_nowhere\n.db zz_o\n}"),
    # an operator the scanner lexes but the evaluator does not know, in a condition (elsewhere: see unknown-operator)
    ("unknown-operator-in-if", ".if 1 == 1 {\nnop\n}"), ("unknown-operator-in-if", ".if 2 > 1 {\nnop\n} else {\nrts\n}"),
    # RecursionError is a RuntimeError: the file APIs catch it and return -1 (the string API lets it escape)
    ("runaway-recursion", ".macro zz_rr() {\nzz_rr()\n}\nzz_rr()"),
    ("mutual-recursion", ".macro zz_ra() {\nzz_rb()\n}\n.macro zz_rb() {\nzz_ra()\n}\nzz_ra()"),
    ("undefined-assign", "zz_x := zz_nowhere"), ("undefined-for-bound", ".for zz_i := 0, zz_nowhere {\nnop\n}"),
    # the program counter walks out of the last mapped bank (no *= onto an unmapped bank involved)
    ("run-off-mapped", "*=0x6FFFFC\n.dw 1, 2, 3, 4\nnop"),
    # an address above the 24-bit address space whose low 24 bits would be a mapped address
    ("org-above-24-bits", "*=0x1008000\nnop"), ("org-above-24-bits", "*=0x1008000\nnop"), ("org-above-24-bits", "*=0x1008000\nnop"),
]
# constructs cut off by the end of the text (appended to a program, or the end of an included file)
CUT_OFF = ["{\nnop", ".scope zz_cut {\nnop", ".macro zz_cm() {\nnop", ".if 1 {\nnop", ".if 0 {\nnop\n} else {\nrts", ".for zz_ck := 0, 4 {\nnop",
           ".macro zz_cm(a) {\n.db a\n}\nzz_cm(1", ".if 1", ".for zz_ck := 0, 4", ".include_ips 'bad.ips'", "lda [0x10", "lda (0x10", "jmp (0x1234,x",
           ".macro zz_cm(code) {\n{{ code", ".db 1,", "zz_cx =", ".macro zz_cm(", "{\n{\nnop\n}"]
# faults that are one complete statement: also planted inside every kind of enclosing construct
WRAPPABLE = ["undefined-macro", "code-lookup", "undefined-assign", "undefined-for-bound", "too-few-arguments",
             "undefined-operand", "unsupported-mode", "missing-incbin", "undefined-org", "struct", "text-without-table"]
WRAPPERS = [
    ("if-true", ".if 1 {\n%s\n}"), ("if-else", ".if 0 {\nnop\n} else {\n%s\n}"), ("if-negative", ".if 0 - 3 {\n%s\n}"),
    ("block", "{\n%s\n}"), ("scope", ".scope zz_sc {\n%s\n}"), ("macro", ".macro zz_w() {\n%s\n}\nzz_w()"),
    ("for", ".for zz_k := 0, 2 {\n%s\n}"), ("if-in-macro", ".macro zz_w2(c) {\n.if c {\n%s\n}\n}\nzz_w2(1)"),
    ("if-if", ".if 1 {\n.if 2 {\n%s\n}\n}"),
]
FILES = {"pad200.bin": [0xEA] * 200, "pad128.bin": [0xEA] * 128, "pad127.bin": [0xEA] * 127,
         "bad.ips": list(b"PATCH\x00\x00\x10\x00\x05ab"),
         "inc_badindex.s": "nop\nlda 0x10,z\nrts\n", "inc_string.s": "nop\n.ascii 'oops\nrts\n",
         "inc_syntax.s": "nop\nlda (1\nrts\n", "inc_undef.s": "nop\n.dw zz_never_defined\n",
         "inc_outer.s": "nop\n.include 'inc_inner.s'\nrts\n", "inc_inner.s": "lda.q #1\n",
         # not text at all: bytes that are no valid UTF-8, placed so that dropping them would leave valid statements
         "inc_notutf8.s": list(b"nop\nsta 0x21\xfe00\nrts\n"), "inc_latin.s": list(b"lda.b #1 ; caf\xe9\nrts\n")}


def cases(ctx):
    rng, tier = ctx["rng"], ctx["tier"]
    out = []
    reps = 2 if tier == "quick" else 30
    cli_budget = 40 if tier == "quick" else 600
    first = {}
    for kind, fault in FAULTS:
        first.setdefault(kind, fault)
    planted = [(k, f) for _ in range(reps) for k, f in FAULTS]
    for rep in range(1 if tier == "quick" else 4):
        planted += [(f"{k}@{wn}", wt % first[k]) for k in WRAPPABLE for wn, wt in WRAPPERS]
    for kind, fault in planted:
        if True:
            rom = rng.choice(["low", "low", "high"])
            g = progen.Gen(rng, rom=rom, features={"blocks", "scopes", "macros", "if", "for", "data", "ascii", "symbols"})
            tree = g.program(rng.randrange(1, 7))
            lines = (progen.render(tree) + "\n").split("\n")
            # insert at a top-level statement boundary (indentation 0 and not inside a brace group)
            depth, spots = 0, []
            for i, ln in enumerate(lines):
                if depth == 0 and i > 0:
                    spots.append(i)
                depth += ln.count("{") - ln.count("}")
            pos = rng.choice(spots) if spots else len(lines)
            if kind == "unmapped-org":
                # every stretch of banks the mapping in force leaves unmapped (also as a @= target, and reached by walking
                # out of the last mapped bank of a mirror range)
                unmapped = {"high": ["*=0x200000\nnop", "*=0x008000\nnop", "*=0x3f0000\nnop", "*=0x808000\nnop", "*=0xbfffff\nnop", "@=0x100000\nnop"]}.get(
                    rom, ["*=0x7d0000\nnop", "*=0x708000\nnop", "*=0xd08000\nnop", "*=0xef8000\nnop", "*=0xf08000\nnop", "*=0xff8000\nnop",
                          "@=0xd08000\nnop", "@=0xef8000\nnop", "*=0xcffffe\n.dw 1, 2\nnop", "*=0x6ffffe\n.dw 1, 2\nnop"])
                fault = rng.choice(unmapped)
            if kind == "org-above-24-bits":
                fault = rng.choice({"high": ["*=0x1C08000\nnop", "@=0x17E2000\nnop", "*=0x1400000\n.db 1", "zz_hb := 0xF00000\n*=zz_hb + 0x510000\nnop"]}.get(
                    rom, ["*=0x1008000\nnop", "@=0x17E2000\nnop", "*=0x1818000\n.db 1", "zz_hb := 0xCF8000\n*=zz_hb + 0x320000\nnop"]))
            if kind == "run-off-mapped" and rom == "high":
                fault = "*=0xFFFFFC\n.dw 1, 2, 3, 4\nnop"
            src = "\n".join(lines[:pos] + [fault] + lines[pos:])
            fmt = rng.choice(["ips", "sfc"])
            # only the files this fault opens (the model reports the first listed include whose scan fails)
            files = {k: v for k, v in FILES.items() if k in fault}
            if "inc_outer.s" in files:
                files["inc_inner.s"] = FILES["inc_inner.s"]
            c = {"kind": f"fault:{kind}", "rom": rom, "mapping": rom, "src": src, "files": files, "format": fmt,
                 "copier": fmt == "ips" and rng.random() < 0.3, "api": True, "count_empty": True,
                 "spec": {"t": "c14", "must_fail": True}}
            if kind == "included:not-utf8":
                c["corr"] = False
            if cli_budget > 0 and rng.random() < 0.5:
                c["cli"] = True
                cli_budget -= 1
            out.append(c)
    for rep in range(1 if tier == "quick" else 6):
        for cut in CUT_OFF:
            for where in ("main", "included"):
                for final_newline in (False, True):
                    rom = rng.choice(["low", "high"])
                    g = progen.Gen(rng, rom=rom, features={"blocks", "scopes", "macros", "if", "for", "data", "symbols"})
                    head = progen.render(g.program(rng.randrange(1, 5))) + "\n"
                    text = cut + ("\n" if final_newline else "")
                    files = {"bad.ips": FILES["bad.ips"]} if "bad.ips" in cut else {}
                    if where == "main":
                        src = head + text
                    else:
                        src, files = head + ".include 'inc_cut.s'\nnop\n", {**files, "inc_cut.s": "nop\n" + text}
                    fmt = rng.choice(["ips", "sfc"])
                    c = {"kind": f"fault:cut-off@{where}", "rom": rom, "mapping": rom, "src": src, "files": files, "format": fmt, "copier": False,
                         "api": True, "count_empty": True, "spec": {"t": "c14", "must_fail": True}}
                    if cli_budget > -12 and rng.random() < 0.2:
                        c["cli"] = True
                        cli_budget -= 1
                    out.append(c)
    for i in range(40 if tier == "quick" else 800):
        rom = rng.choice(["low", "low", "high", "low2"])
        g = progen.Gen(rng, rom=rom)
        src = progen.render(g.program(rng.randrange(1, 8))) + "\n"
        fmt = rng.choice(["ips", "sfc"])
        out.append({"kind": "valid", "rom": rom, "mapping": rom, "src": src, "format": fmt, "api": True, "cli": i < 12,
                    "copier": False, "count_empty": True, "spec": {"t": "c14", "must_fail": False}})
    # writer-level failures: the assembly is fine but the patch cannot hold the block
    # (an offset whose three bytes read 'EOF' is out of reach of the built-in mappings; with a user .map the assembly is
    #  fine in memory and the IPS writer refuses the block: the file API raises, the command line exits 1.  That is the
    #  documented domain limit of the oracle (C14_oracle_domain), so this case is compared with the model only.)
    out.append({"kind": "writer-refusal:ips-sentinel", "rom": None, "mapping": None, "format": "ips", "api": True, "cli": False,
                "src": ".map identifier=1 bank_range=0x00,0xff addr_range=0,0xffff mask=0x10000\n*=0x454f46\n.db 1, 2\n",
                "count_empty": True, "spec": {"t": "none"}, "corr": True})
    out.append({"kind": "empty-source", "rom": "low", "mapping": "low", "format": "ips", "api": True, "cli": True, "src": "",
                "count_empty": True, "spec": {"t": "c14", "must_fail": False}})
    return out
