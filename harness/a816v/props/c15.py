"""C15 — every input terminates."""
from __future__ import annotations

import itertools

from .. import e2e, progen
from ..e2e import HEADER, CASE_TYPE, CHECK, MODEL_VIEW, SHARD, observe, coq_term, nontrivial_key, tags  # noqa: F401
from . import e2e as e2emod

ID = "C15"
CASE_TIMEOUT = 10
THEOREMS = ["C15_scan", "C15_scan_expression", "C15_parse", "C15_lookup", "C15_ips_writer", "C15_ips_reader",
            "C15_to_bytes", "C15_to_text", "C15_assemble", "C15_codegen", "C15_passes"]
# model-tie modules whose correspondence is part of this property's check (parts of the model its theorems rest on)
TIES = ['E2E']
RULE = ("every sequence of length <= 2 (quick; <= 3 thorough) over a 57-fragment alphabet (mnemonics, every directive, "
        "brackets, quotes, comment openers, operators, numbers, labels, a non-ASCII letter, NUL), joined with and without "
        "spaces; random longer soups; every single-line deletion / duplication / truncation of valid generated programs; "
        "unconditional, mutual and guarded-but-unbounded macro recursion, cyclic includes, missing includes from odd source names, deep nesting; each run through the whole "
        "assembler under a per-case watchdog and through the composed model; non-trivial: every case")
PROVED_NOTE = ("proved (fuel sufficiency, fuel a simple function of the input size): the scanner driver and every lexer loop "
               "(both entry points), the parser (all loops and recursive descent, includes bounded by the include depth), name "
               "lookup, the IPS split loop and reader, the table codec; and the composition: for every source text, files and "
               "options the whole pipeline model (scan, parse with includes, code generation, both passes, emission) ends with an "
               "output or a reported error, never out of fuel (invariant: scope tree well formed, current scope valid, table "
               "functions total). Macro recursion is bounded by the depth fuel = the reported RecursionError. "
               "Correspondence-only: that the code's loops are the model's (watchdog run). Wall-clock time itself is runtime: "
               "partial in that sense.")
MANIFEST = {
    "text": ("Coq fuel-sufficiency theorems for every fuelled loop of the scanner, parser, lookup, IPS and table models (the "
             "models are faithful about non-progress: a loop that would spin runs out of fuel); composed pipeline model tied to "
             "the code by exhaustive short fragment sequences and mutations of valid programs under a watchdog; oracle: the "
             "implementation terminated with an output or a reported error."),
    "note": ("Partial: a theorem cannot exhibit wall-clock behaviour; the watchdog run ties the fuel theorems to the code. "
             "Python's recursion limit is modelled as a depth fuel. Trusted: Coq kernel/vm_compute, harness. No axioms."),
    "technique": "Coq fuel-sufficiency proofs + exhaustive short-sequence and mutation runs under a watchdog",
}

FRAGMENTS = ["lda", "nop", ".db", ".dw 1,", ".macro", ".if", ".for", ".text", ".scope", ".include", ".include_ips", "(", ")",
             "{", "}", "{{", "}}", "'", "'a'", "/*", "*/", ";", "\n", "\t", ",", "#", "0x", "0b", "1", "a", "a:", "=", ":=",
             "*=", "@=", ".", "x", "+", "-", "~", "<<", "[", "]", "\\", "é", "\x00", "lda.w", ".b", "m(", "else",
             ".map", ".struct", ".table", ".incbin", ".pointer", ".ascii", '"']


def cases(ctx):
    rng, tier = ctx["rng"], ctx["tier"]
    out = []

    def add(kind, src, files=None):
        out.append({"kind": kind, "rom": "low", "src": src, "files": files or {}, "count_empty": True,
                    "spec": {"t": "c15"}})
    for f in FRAGMENTS:
        add("seq1", f)
        add("seq1", "*=0x008000\n" + f)
    pairs = list(itertools.product(FRAGMENTS, repeat=2))
    for a, b in pairs:
        add("seq2", a + " " + b)
        add("seq2", a + b)
    if tier == "thorough":
        for a, b, c in rng.sample(list(itertools.product(FRAGMENTS, repeat=3)), 40000):
            add("seq3", " ".join((a, b, c)))
    for _ in range(150 if tier == "quick" else 4000):
        add("soup", rng.choice(["", " ", "\n"]).join(rng.choice(FRAGMENTS) for _ in range(rng.randrange(3, 12))))
    for _ in range(40 if tier == "quick" else 1500):
        base = e2emod.text_case(rng)
        lines = base["src"].split("\n")
        for _m in range(4):
            k = rng.random()
            i = rng.randrange(0, len(lines))
            if k < 0.35:
                m = lines[:i] + lines[i + 1:]
            elif k < 0.6:
                m = lines[:i] + [lines[i]] + lines[i:]
            elif k < 0.8:
                m = lines[:i] + [lines[i][:rng.randrange(0, len(lines[i]) + 1)]]
            else:
                j = rng.randrange(0, len(lines))
                m = list(lines)
                m[i], m[j] = m[j], m[i]
            out.append({"kind": "mutation", "rom": base["rom"], "src": "\n".join(m), "files": base["files"],
                        "count_empty": True, "spec": {"t": "c15"}})
    # ends of input: programs without a final newline, cut at every position of their last line
    tails = ["rts ; done", "nop ;", "lda #0", "lda 0", "ldx #0", "lda #10", "lda 0x00", ".db 0", "x = 0", "lda.w #0x1234,x",
             "lda (0),y", "lda [0]", ".ascii 'a'", "m(1, 0)", "l:", "*=0", "@=0", ".dw 1, 0", "jmp (0,x)", "inc", "asl ; a",
             "{", "}", ".if 0", ".for i := 0, 0", "/* c */", "; c", "tax;", "tax ;", "tax\t; c"]
    for t in tails:
        for cut in range(1, len(t) + 1):
            add("end-of-input", "*=0x008000\n" + t[:cut])
            add("end-of-input", t[:cut])
    for _ in range(30 if tier == "quick" else 1000):
        base = e2emod.text_case(rng)
        text = base["src"].rstrip("\n")
        for cut in range(0, min(14, len(text))):
            out.append({"kind": "end-of-input", "rom": base["rom"], "src": text[:len(text) - cut], "files": base["files"],
                        "count_empty": True, "spec": {"t": "c15"}})
    # recursion and loops that must end with an error or an output
    add("recursion", "*=0x008000\n.macro r() {\nr()\n}\nr()\n")
    add("recursion", "*=0x008000\n.macro a() {\nb()\n}\n.macro b() {\na()\n}\na()\n")
    add("recursion", "*=0x008000\n.macro r(n) {\n.db n\n.if n {\nr(n - 1)\n}\n}\nr(40)\n")
    # unbounded recursion guarded by a condition over an outer symbol, with two self-applications / one inside a loop:
    # only the recursion limit ends it, and it must end it at once (not after re-descending 2^depth times)
    add("recursion", "LIMIT := 1\n*=0x008000\n.macro zz_r(d) {\n.if LIMIT {\nzz_r(d)\nzz_r(d)\n}\n}\nzz_r(0)\n")
    add("recursion", "LIMIT := 1\n*=0x008000\n.macro zz_r(d) {\n.if LIMIT {\n.for zz_i := 0, 2 {\nzz_r(d)\n}\n}\n}\nzz_r(0)\n")
    add("recursion", "*=0x008000\n.macro zz_r(d) {\n.if d {\nzz_r(d)\nzz_r(d)\nzz_r(d)\n} else {\nzz_r(1)\nzz_r(1)\n}\n}\nzz_r(0)\n")
    add("recursion", "*=0x008000\n.macro zz_r(c) {\n{{c}}\n}\n.macro zz_q() {\nzz_r({\nzz_q()\nzz_q()\n})\n}\nzz_q()\n")
    # -D texts: the expression scanner / parser / evaluator entered from the command line (eval_expression_str), with texts
    # that end early, carry line ends, unknown characters or operators: each run ends (a value, or a reported error)
    for i, text in enumerate(["1 ?", "0x10\n", "0x10\n+ 2", "(1", "UNDEF + 1", "1 +", "$", "", "'", "0x", "1 2", "~", "((((1))))",
                              "1 == 1", "1 +\n", "\n", " ", "2 * (3", "0b", "1 , 2", "-", "- - 1", "a b", "1 ? 2", "0x10 $", "1\t+\t2"]):
        out.append({"kind": "define-text", "rom": "low", "mapping": "low", "format": "ips", "copier": False, "files": {},
                    "src": "*=0x008000\n.db 1\n", "cli": True, "cli_defines": {"SIZE": text}, "count_empty": True,
                    "spec": {"t": "c15"}})
    # table files with lines that are not entries: long runs of hex digits without '=' (rulers, checksums, a cut entry),
    # blanks between digit groups, lone separators: every such line is skipped in time linear in its length
    for i, noise in enumerate(["0123456789ABCDEF0123456789abcdef0123456789ABCDEF", "00" * 40, "0 1 2 3 4 5 6 7 8 9 a b c d e f " * 3,
                               "01 02 03 04 05 06 07 08 09 0A 0B 0C 0D 0E 0F 10 11 12 13 14", "a" * 64 + ":", "4" * 33 + " ",
                               "abcdef" * 12 + ":12", ("12" * 20 + " ") * 3, "=" , ":=", "0:0:0:0:0:0:0:0:0:0:0:0:0:0:0:0"]):
        tbl = f"; noise {i}\n41=A\n{noise}\n42=B\n"
        add("table-noise", "*=0x008000\n.table 'n.tbl'\n.text 'ABBA'\nend:\n.dl end\n", {"n.tbl": {"tbl_text": tbl}})
    # operand widths that depend on a label behind the instruction, exactly on a width boundary: no assignment of
    # widths is a fixed point (an assembler that iterated the label pass "until it settles" would never stop)
    for mn in ("ldx", "lda", "sta", "adc"):
        for k in (0x8101, 0x8102, 0x8103, 0x18002, 0x18003):
            add("width-oscillation", f"*=0x008000\n{mn} {k:#x} - zz_free\nzz_free:\n")
            add("width-oscillation", f"*=0x008000\nzz_top:\n{mn} {k:#x} - zz_free\n{mn} zz_free - zz_top + 0xfd\nzz_free:\n.dl zz_free\n")
    # .text strings with brackets that open nothing the table knows, closed or not; escapes cut short
    tbl = {"tbl_text": "41=A\n42=B\n5B5D=[]\n43=[ok]\n"}
    for text in ("press [a", "[", "[[", "[0x", "[0x4", "[0x41", "a[b]c", "[delai]start", "[ok", "A[", "[]", "][", "[0xZZ]", "[0x100]"):
        add("text-brackets", f"*=0x008000\n.table 'n.tbl'\n.text '{text}'\nend:\n.dl end\n", {"n.tbl": tbl})
    # patch files that end early (no EOF marker: just the magic, cut at a record boundary, inside a record header, inside a
    # payload, inside a run-length descriptor)
    whole = b"PATCH" + (0x10).to_bytes(3, "big") + (3).to_bytes(2, "big") + b"\x01\x02\x03" + (0x20).to_bytes(3, "big") + (0).to_bytes(2, "big") + (4).to_bytes(2, "big") + b"\x09" + b"EOF"
    for cut in (5, 6, 8, 10, 11, 13, 16, 18, 20, 21, len(whole) - 2, len(whole) - 1, 0, 3):
        add("patch-cut", "*=0x008000\nnop\n.include_ips 'cut.ips', 0\nrts\n", {"cut.ips": list(whole[:cut])})
    # negative operands without a size suffix (the width is worked out from the value), alone and from label differences
    for stmt in ("lda #-1", "adc -2", "ldx #zz_a - zz_b", "ldy #zz_step", "cmp #0 - 0x8000", "and -0x123456", "lda -1,x"):
        add("negative-operand", f"*=0x008000\nzz_step := 0 - 0x10\nzz_a:\nnop\nzz_b:\n{stmt}\nrts\n")
    # a block that ends right in front of / at / behind the offset whose bytes read 'EOF', through the real IPS writer
    flat = ".map identifier=1 bank_range=0x00,0x7d addr_range=0,0xffff mask=0x10000\n"
    for start in (0x454F40, 0x454F41, 0x454F42, 0x454F45, 0x454F46, 0x454F47):
        for copier in (False, True):
            out.append({"kind": "ips-eof-offset", "rom": None, "mapping": None, "format": "ips", "copier": copier, "files": {}, "api": True,
                        "src": f"{flat}*={start - (0x200 if copier else 0):#08x}\n.db 1, 2, 3, 4, 5, 6\n", "count_empty": True, "spec": {"t": "c15"}})
    # a block argument that pastes itself: the inner macro's parameter has the same name as the outer one's, so inside the
    # inner scope `code` is bound to the block { {{code}} } which looks itself up (no macro is applied on the cycle)
    add("recursion", "*=0x008000\n.macro zz_tw(code) {\n{{code}}\n{{code}}\n}\n.macro zz_pt(code) {\nzz_tw({\n{{code}}\n})\n}\nzz_pt({\nnop\n})\n")
    add("recursion", "*=0x008000\n.macro zz_tw(code) {\n.if 1 {\n{{code}}\n}\n}\n.macro zz_pt(code) {\nzz_tw({\nnop\n{{code}}\n})\n}\nzz_pt({\nnop\n})\n")
    add("recursion", "*=0x008000\n.macro zz_tw(body) {\n{{body}}\n{{body}}\n}\n.macro zz_pt(code) {\nzz_tw({\n{{code}}\n})\n}\nzz_pt({\nnop\n})\n")
    # a missing include, the including source named by an absolute / nested / odd path (the name is only a label for
    # the string API, but an include lookup relative to it must still end)
    for fname in ("/zz_abs/dir/main.s", "/main.s", "sub/dir/main.s", "./main.s", "../main.s", "main.s"):
        out.append({"kind": "missing-include", "rom": "low", "fname": fname, "files": {}, "count_empty": True,
                    "src": "*=0x008000\nnop\n.include 'zz_missing_inc.s'\nrts\n", "spec": {"t": "c15"}})
        out.append({"kind": "missing-include", "rom": "low", "fname": fname, "files": {}, "count_empty": True,
                    "src": "*=0x008000\n.incbin 'zz_missing.bin'\n.table 'zz_missing.tbl'\n", "spec": {"t": "c15"}})
    # blocks that end on, or run over, the last byte of a bank at the top of a mapped range (also the highest one of the map)
    flat40 = ".map identifier=1 bank_range=0x00,0x3f addr_range=0x8000,0xffff mask=0x8000\n"
    for rom, srcs in (("low", ["*=0xcffffe\n.db 1, 2\n", "*=0xcffffe\n.dw 1, 2\nnop\n", "*=0xcfffff\nnop\n", "*=0x6ffffe\n.db 1, 2\n", "*=0x6ffffd\njmp.l 0x008000\nnop\n",
                               "*=0x7ffffe\n.db 1, 2, 3\n", "*=0x00fffe\n.db 1, 2\nl:\n.dl l\n", "*=0x008000\n@=0xcffffe\n.db 1, 2\nnop\n"]),
                      ("high", ["*=0xfffffe\n.dw 0x8000\n", "*=0xfffffc\njmp.l 0xc00000\n", "*=0xffffff\nnop\nnop\n", "*=0x7dfffe\n.db 1, 2, 3\n", "*=0xc00000\n@=0xfffffe\n.dw 1\nnop\n"]),
                      (None, [flat40 + "*=0x3ffffe\n.db 1, 2\n", flat40 + "*=0x3ffffe\n.db 1, 2, 3\nnop\n", flat40 + "*=0x3fffff\nlda.w #0x1234\n"])):
        for src in srcs:
            out.append({"kind": "top-of-map", "rom": rom, "src": src, "files": {}, "count_empty": True, "spec": {"t": "c15"}})
    # long chains of symbols each computed from the ones before (twice the previous one, Fibonacci), used where the label
    # pass needs a value: the work is linear in the number of lines, whatever the outcome
    for op, first in (("=", "zz_c0 = 1\nzz_c1 = 1\n"), (":=", "zz_c0 := 1\nzz_c1 := 1\n")):
        dbl = first + "".join(f"zz_c{k} {op} zz_c{k - 1} + zz_c{k - 1}\n" for k in range(2, 49))
        fib = first + "".join(f"zz_c{k} {op} zz_c{k - 1} + zz_c{k - 2}\n" for k in range(2, 61))
        for chain, last in ((dbl, "zz_c48"), (fib, "zz_c60")):
            for use in (f"lda #{last} >> 40\n", f"lda {last} & 0xFF\n", f"*={last} & 0x7FFF | 0x8000\nnop\n", f"@=0x7e0000 + ({last} & 0xFF)\nnop\n",
                        f".dl {last} & 0xFFFFFF\n", f"lda.b #{last} >> 40\n"):
                add("symbol-chain", "*=0x008000\n" + chain + use + "rts\n")
    add("cyclic-include", "*=0x008000\n.include 'a.s'\n", {"a.s": ".include 'b.s'\n", "b.s": ".include 'a.s'\n"})
    add("self-include", "*=0x008000\n.include 'prog.s'\n", {"prog.s": "*=0x008000\n.include 'prog.s'\n"})
    add("loop", "*=0x008000\n.for i := 0, 300 {\n.db i\n}\n")
    add("loop", "*=0x008000\n.for i := 5, -5 {\n.db i\n}\n")
    add("nested-blocks", "*=0x008000\n" + "{\n" * 60 + "nop\n" + "}\n" * 60)
    add("unclosed-blocks", "*=0x008000\n" + "{\n" * 40)
    add("long-line", "*=0x008000\n.db " + ", ".join(str(i % 256) for i in range(400)) + "\n")
    add("long-expression", "*=0x008000\n.dl " + " + ".join(["1"] * 200) + "\n")
    add("deep-parens", "*=0x008000\n.dl " + "(" * 80 + "1" + ")" * 80 + "\n")
    add("unbalanced-parens", "*=0x008000\n.dl " + "(" * 80 + "1\n")
    return out
