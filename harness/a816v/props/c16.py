"""C16 — output does not depend on how the source text is laid out."""
from __future__ import annotations

import re

from .. import asmdriver, e2e, progen
from ..e2e import HEADER, CASE_TYPE, CHECK, MODEL_VIEW, SHARD, CASE_TIMEOUT, observe, coq_term, nontrivial_key, tags  # noqa: F401

ID = "C16"
THEOREMS = ["C16_include_flattens", "C16_include_moved", "C16_fuel_monotone", "C16_comment_skipped",
            "C16_comment_skipped_in_block", "C16_case_insensitive", "C16_opcode_lowered", "C16_scan_compositional",
            "C16_invisible_block", "C16_blank_lines", "C16_blank_lines_at_top", "C16_line_comment", "C16_line_comment_at_top",
            "C16_block_comment", "C16_block_comment_at_top", "C16_indentation_at_top", "C16_indentation",
            "C16_line_replacement", "C16_trailing_blanks", "C16_eol_comment", "C16_line_tail_at_top",
            "C16_case_scan", "C16_case_number", "C16_case_parse_partial", "C16_case_source",
            "C16_blank_insertion", "C16_blank_insertion_columns", "C16_layout_link", "C16_blank_lines_assemble",
            "C16_symbols_equal", "C16_line_replacement_assemble", "C16_comment_block_at_top_assemble",
            "C16_comment_block_between_assemble", "C16_comments_inserted_parse",
            "C16_include_moved_source",
            "C16_include_nested_source"]


def instantiate(gen_q):
    """Per-run: the two side conditions of the scanner theorems hold for the live lexicon."""
    lx = "(mk_lexicon Run.GenLexicon.mnemonics Run.GenLexicon.mnemonics_without_operand Run.GenLexicon.keywords)"
    text = (
        "From A816 Require Import Model.Scanner Proofs.ScannerSpec Proofs.ScannerPos Proofs.ScannerTrailing1 Proofs.ScannerCase1.\n"
        "Require Import Run.GenLexicon.\n"
        f"Definition live_lexicon16 := {lx}.\n"
        "Lemma live_lexicon16_ok : lexicon_ok live_lexicon16 = true.\nProof. vm_compute. reflexivity. Qed.\n"
        "Lemma live_lexicon16_tok : lexicon_tok live_lexicon16 = true.\nProof. vm_compute. reflexivity. Qed.\n"
        "Definition C16_trailing_blanks_live_ok := fun file a x w b ta ea la t1 e1 l1 => "
        "C16_trailing_blanks live_lexicon16 file a x w b ta ea la t1 e1 l1 live_lexicon16_ok live_lexicon16_tok.\n"
        "Definition C16_eol_comment_live_ok := fun file a x w c b ta ea la t1 e1 l1 => "
        "C16_eol_comment live_lexicon16 file a x w c b ta ea la t1 e1 l1 live_lexicon16_ok live_lexicon16_tok.\n"
    )
    text += ("Lemma live_lexicon16_kw : kw_ok live_lexicon16 = true.\nProof. vm_compute. reflexivity. Qed.\n"
             "Definition C16_case_scan_live := fun file s s' toks lines => C16_case_scan live_lexicon16 file s s' toks lines live_lexicon16_kw.\n")
    text += ("From A816 Require Import Proofs.ScannerBlank1 Proofs.ScannerBlank2.\n"
             "Lemma live_lexicon16_alpha : lexicon_alpha live_lexicon16 = true.\nProof. vm_compute. reflexivity. Qed.\n"
             "Definition C16_blank_insertion_live := fun file a u w v b ta ea la t1 e1 l1 => "
             "C16_blank_insertion live_lexicon16 file a u w v b ta ea la t1 e1 l1 live_lexicon16_ok live_lexicon16_alpha.\n")
    return text, ["C16_trailing_blanks_live_ok", "C16_eol_comment_live_ok", "C16_case_scan_live", "C16_blank_insertion_live"]
# model-tie modules whose correspondence is part of this property's check (parts of the model its theorems rest on)
TIES = ['SCAN']
RULE = ("valid programs (generated + the repository's sample sources) x 6 random compositions of the listed presentation "
        "changes applied at every applicable position: blank lines, indentation (spaces/tabs), trailing spaces, full-line and "
        "end-of-line ';' comments, '/* */' comments between statements, spaces next to binary operators and commas and inside "
        "brackets, letter case of mnemonics / size suffixes / index registers / hex digits, and moving a run of top-level "
        "statements into an .include'd file; blocks, offsets and all labels of the re-laid-out source must equal the original's; "
        "non-trivial: the program assembles and emits bytes")
PROVED_NOTE = ("proved: an included file becomes a block that code generation flattens without a scope, and moving a run of "
               "statements into an included file leaves the generated nodes and resolver state unchanged (with fuel "
               "monotonicity of code generation); the parser drops COMMENT tokens at statement boundaries; size suffix and index "
               "register are read through lower-casing (parser), the mnemonic through lower-casing (code generation). "
               "scanner: scanning is compositional at line ends (for success and for reported errors), so any block of "
               "whole lines that scans to nothing significant can be inserted or removed without changing the significant "
               "tokens, later lines shift; closed forms with purely textual hypotheses for blank lines, full-line ';' comments "
               "(any text) and '/* */' comments (any text without the closing pair, multi-line included); indentation in front of "
               "any line changes only the columns on that line (exact equation, errors included); trailing blanks and an end-of-line "
               "';' comment after ANY line are invisible (two-text simulation through every lexer; side condition: a blank "
               "before the ';' or no bare mnemonic right before it; `lexicon_tok` discharged per run on the live lexicon). "
               "LETTER CASE at text level: two texts equal up to ASCII letter case whose differences avoid directive keywords and the "
               "base marker of numerals scan to the same token types at the same positions with values equal up to case (lock-step "
               "simulation through every lexer); a re-cased hexadecimal numeral has the same value; the parser's instruction statement "
               "maps such token lists to the same node up to mnemonic case; END TO END (C16_case_source): such texts assemble to the same "
               "blocks and labels / same errors (generic simulation of parser, code generation and passes). BLANKS INSIDE A LINE: spaces "
               "inserted at a gap between tokens (after/before , ( ) [ ] # operators =, after a label or mnemonic) change no token and move "
               "the following columns by their number (decidable conservative gap condition, necessity examples; spaces only - a tab inside "
               "an operand is rejected by the scanner). THE LINK to the output (C16_layout_link): two texts whose scans yield the same tokens "
               "(types and values, comments included, any positions) assemble to the same blocks, labels and symbol values, or fail "
               "alike - so blank lines, indentation, trailing blanks and blanks inside lines provably leave the OUTPUT unchanged; "
               "a comment block in front of a text too. A comment line BETWEEN two lines is invisible to the output only when the "
               "second line does not continue the statement of the first (no end-of-line token: `lda #1` / `+2` is one statement): "
               "proved under the static condition that the next token starts a statement no unfinished statement can absorb "
               "(instruction, directive, label, *=, @=, {{, }, end of text). Correspondence-only: that the code computes what the models compute; gaps the "
               "conservative condition excludes (lines containing a quote or `;` before the gap); included files in the case theorem.")
MANIFEST = {
    "text": ("Coq theorems on include flattening, comment skipping and case folding in the parser / code-generation models; "
             "scanner layout-insensitivity is checked metamorphically: re-laid-out programs must give identical blocks, offsets "
             "and symbol values on the implementation, and the composed model must agree with the implementation on the "
             "re-laid-out text."),
    "note": ("Every clause has a theorem; the gap condition for inserted blanks is conservative and the end-to-end case theorem excludes included files (both also validated by metamorphic correspondence) (comment lines, blank lines, indentation, trailing blanks and end-of-line comments are proved). "
             "Trusted: Coq kernel/vm_compute, harness. No axioms."),
    "technique": "Coq proof (include flattening, comment skip, case folding) + metamorphic layout twins + model correspondence",
}

MNEMONICS = None
OPS = [" + ", " - ", " & ", " << ", " >> ", " * ", " | "]


def _mnemonics():
    global MNEMONICS
    if MNEMONICS is None:
        from a816.cpu.cpu_65c816 import snes_opcode_table
        MNEMONICS = set(snes_opcode_table)
    return MNEMONICS


def recase(rng, word):
    k = rng.random()
    if k < 0.4:
        return word.upper()
    if k < 0.7:
        return "".join(c.upper() if rng.random() < 0.5 else c.lower() for c in word)
    return word


def relayout_line(rng, line):
    """One statement line -> an equivalent presentation of it."""
    body = line.strip(" ")
    if not body:
        return line
    if body.startswith(";") or body.startswith("/*") or "'" in body:
        # comments and quoted text are left alone (only their indentation changes)
        return rng.choice(["", " ", "    ", "\t", "  \t"]) + body + rng.choice(["", " ", "   "])
    m = re.match(r"^([A-Za-z]{3})(\.[bwlBWL])?(?=\s|$)(.*)$", body)
    if m and m.group(1).lower() in _mnemonics():
        mn, sfx, rest = m.group(1), m.group(2) or "", m.group(3)
        if rng.random() < 0.6:
            mn = recase(rng, mn)
        if sfx and rng.random() < 0.5:
            sfx = sfx.upper() if rng.random() < 0.5 else sfx.lower()
        # index registers
        rest = re.sub(r",\s*([xysXYS])\b", lambda mm: "," + rng.choice(["", " "]) + (mm.group(1).upper() if rng.random() < 0.5 else mm.group(1).lower()), rest)
        # space between a bracket and the operand expression it encloses
        if rng.random() < 0.5:
            rest = re.sub(r"^(\s*)\(", lambda mm: mm.group(1) + "(" + rng.choice(["", " ", "  "]), rest, count=1)
            rest = re.sub(r"^(\s*)\[", lambda mm: mm.group(1) + "[" + rng.choice(["", " ", "  "]), rest, count=1)
            rest = re.sub(r"\](?=\s*(,|$))", lambda mm: rng.choice(["", " "]) + "]", rest, count=1)
        body = mn + sfx + rest
    # hex digits
    body = re.sub(r"0x([0-9a-fA-F]+)", lambda mm: "0x" + (mm.group(1).upper() if rng.random() < 0.5 else mm.group(1).lower()), body)
    # spaces next to binary operators and commas
    for op in OPS:
        if op in body and rng.random() < 0.6:
            body = body.replace(op, rng.choice([op.strip(), op, " " + op + " "]))
    if ", " in body and rng.random() < 0.6:
        body = body.replace(", ", rng.choice([",", " , ", ",  "]))
    indent = rng.choice(["", " ", "    ", "\t", "  \t", "        "])
    tail = rng.choice(["", "", " ", "   "])
    if rng.random() < 0.25 and not body.endswith(","):
        tail = rng.choice([" ", "  "]) + "; " + rng.choice(["note", "x := 1", "lda #0", "/* not a comment */", "'quote"])
    return indent + body + tail


def block_comment(rng):
    """A '/* */' comment with arbitrary content (no '*/' inside): slashes and stars next to the delimiters, the
    toggle idiom, statements, quotes, braces, newlines, characters other conventions treat as line ends."""
    if rng.random() < 0.3:
        return rng.choice(["/*/ off\n lda #1\n .db 1, 2\n/**/", "/*// old //*/", "/*** x ***/", "/***/", "/* * / */", "/*/*/",
                           "/*/ nop */", "/* sep\u2028arator \x0c \x85 */", "/* 'quote */", "/* ; */", "/*\n*/", "/* /* */"])
    alphabet = ["/", "*", " ", "\n", ";", "'", "{", "}", "lda #1", ".db 9", "x:", "\t", "\x0c", "é", ",", "(", "*=", "0x"]
    body = "".join(rng.choice(alphabet) for _ in range(rng.randrange(0, 12)))
    while "*/" in body:
        body = body.replace("*/", "* /")
    if body.endswith("*") and False:
        body += " "
    return "/*" + body + "*/"


def relayout(rng, src):
    lines = src.rstrip("\n").split("\n")
    out = []
    for ln in lines:
        r = rng.random()
        if r < 0.15:
            out.append("")
        elif r < 0.25:
            out.append(rng.choice(["", "  ", "\t"]) + "; " + rng.choice(["comment", "lda #1", "}", "{", ".db 1", "/* open", "*/", "page\x0cbreak", "'", "é\u2028x"]))
        elif r < 0.32:
            out.append(rng.choice(["/* block */", "/* multi\n line } { \n*/", "/**/", "  /* lda #1 ; x */", block_comment(rng)]))
        out.append(relayout_line(rng, ln))
    return "\n".join(out) + rng.choice(["\n", "", "\n\n", "\n  \n"])


def move_to_include(rng, src):
    """Move a run of complete top-level statements into an included file."""
    lines = src.rstrip("\n").split("\n")
    depth, bounds = 0, [0]
    for i, ln in enumerate(lines):
        depth += ln.count("{") - ln.count("}")
        if depth == 0:
            bounds.append(i + 1)
    bounds = sorted(set(b for b in bounds if b >= 1))       # keep the leading *= in the main file
    if len(bounds) < 2:
        return None
    a = rng.choice(bounds[:-1])
    later = [b for b in bounds if b > a]
    b = rng.choice(later[:4])
    moved = "\n".join(lines[a:b]) + "\n"
    main = "\n".join(lines[:a] + [".include 'moved.s'"] + lines[b:]) + "\n"
    return main, {"moved.s": moved}


def base_programs(rng, n):
    out = []
    prelude = ("*=0x008000\nsource := 0x7e2000\nvramptr := 0x4000\ncount := 0x800\nmode := 0x1\n"
               "dma_transfer_to_vram := 0x00a000\nvwf_shift_table := 0x01c000\n")
    for path in ("/repo/tests/samples/push_pull.s", "/repo/tests/samples/sample.s"):
        try:
            src = prelude + open(path).read()
        except OSError:
            continue
        if "ok" in asmdriver.assemble(src, rom="low"):
            out.append(("low", src))
    while len(out) < n:
        rom = rng.choice(["low", "low", "high", "low2"])
        g = progen.Gen(rng, rom=rom)
        src = progen.render(g.program(rng.randrange(2, 10))) + "\n"
        ob = asmdriver.assemble(src, rom=rom)
        if "ok" in ob and any(b for b, _ in ob["ok"]["blocks"]):
            out.append((rom, src))
    return out


def cases(ctx):
    rng, tier = ctx["rng"], ctx["tier"]
    out = []
    bases = base_programs(rng, 45 if tier == "quick" else 2500)
    for rom, src in bases:
        for k in range(6):
            files = {}
            new = src
            kind = "layout"
            if k == 5:
                mv = move_to_include(rng, src)
                if mv:
                    new, files = mv
                    kind = "include"
                    if rng.random() < 0.5:
                        files = {"moved.s": relayout(rng, files["moved.s"])}
                        new = relayout(rng, new) if ".include" in new and rng.random() < 0.5 else new
                else:
                    new = relayout(rng, src)
            else:
                new = relayout(rng, src)
            out.append({"kind": kind, "rom": rom, "src": new, "files": files,
                        "twin": {"src": src, "rom": rom, "files": {}}, "spec": {"t": "twin", "labels": True}})
    # a run of statements moved into an included file from INSIDE a construct (the .include stands between braces)
    run = "zz_in:\nlda.b #0x12\n.dw zz_in\n"
    for wname, w in (("block", "{\n%s}\n"), ("scope", ".scope zz_sc {\n%s}\n.dl zz_sc.zz_in\n"), ("macro", ".macro zz_mm() {\n%s}\nzz_mm()\n"),
                     ("if", ".if 1 {\n%s}\n"), ("else", ".if 0 {\nnop\n} else {\n%s}\n"), ("for", ".for zz_i := 0, 2 {\n%s}\n")):
        for rom, org in (("low", 0x018000), ("high", 0x410000)):
            out.append({"kind": f"include-nested:{wname}", "rom": rom, "files": {"moved.s": run},
                        "src": f"*={org:#08x}\nnop\n" + (w % ("rts\n.include 'moved.s'\nnop\n")) + "end:\n.dl end\n",
                        "twin": {"src": f"*={org:#08x}\nnop\n" + (w % ("rts\n" + run + "nop\n")) + "end:\n.dl end\n", "rom": rom, "files": {}},
                        "spec": {"t": "twin", "labels": True}})
    # a run that occurs several times moved into ONE file that is brought in by several .include directives (siblings in the
    # main file, in an included file, and both)
    rep_run = "php\n{\nzz_rl:\nlda.b #0x21\n.dw zz_rl & 0xFFFF\n}\nplp\n"
    for rom, org in (("low", 0x018000), ("high", 0x410000)):
        flat = f"*={org:#08x}\n" + rep_run + "nop\n" + rep_run + "end:\n.dl end\n"
        inc = ".include 'rep.s'\n"
        for name, main, files in (
                ("siblings", f"*={org:#08x}\n" + inc + "nop\n" + inc + "end:\n.dl end\n", {"rep.s": rep_run}),
                ("in-included", f"*={org:#08x}\n.include 'outer.s'\nend:\n.dl end\n", {"rep.s": rep_run, "outer.s": inc + "nop\n" + inc}),
                ("main-and-included", f"*={org:#08x}\n" + inc + ".include 'outer.s'\nend:\n.dl end\n", {"rep.s": rep_run, "outer.s": "nop\n" + inc}),
                ("in-blocks", f"*={org:#08x}\n{{\n" + inc + "}\nnop\n{\n" + inc + "}\nend:\n.dl end\n", {"rep.s": rep_run})):
            twin = flat if name != "in-blocks" else f"*={org:#08x}\n{{\n" + rep_run + "}\nnop\n{\n" + rep_run + "}\nend:\n.dl end\n"
            out.append({"kind": f"include-twice:{name}", "rom": rom, "files": files, "src": main,
                        "twin": {"src": twin, "rom": rom, "files": {}}, "spec": {"t": "twin", "labels": True}})
    # stand-alone mnemonics (implied and accumulator forms) in every letter case
    for rom, org in (("low", 0x018000),):
        lower = "rts\nclc\ntax\nphp\ninc\nasl\ndec\nlsr\nrol\nror\nnop\nxba\n"
        for variant in (lower.upper(), "".join(ln.capitalize() + "\n" for ln in lower.split("\n") if ln)):
            out.append({"kind": "naked-case", "rom": rom, "files": {}, "src": f"*={org:#08x}\n{variant}end:\n.dl end\n",
                        "twin": {"src": f"*={org:#08x}\n{lower}end:\n.dl end\n", "rom": rom, "files": {}}, "spec": {"t": "twin", "labels": True}})
    # letter case of hexadecimal digits in literals written with redundant leading zeros, as whole operands, in data and in *=
    for lower, upper in (("lda 0x00fe\nsta 0x0000ab,x\nadc #0x00cd\n", "lda 0x00FE\nsta 0x0000AB,x\nadc #0x00CD\n"),
                         (".dw 0x00fe, 0x0abc\n.dl 0x00beef\nlda.w 0x00fa\n", ".dw 0x00FE, 0x0ABC\n.dl 0x00BEEF\nlda.w 0x00FA\n"),
                         ("and 0x000c\nora 0x00ff\njmp 0x00c0de\n", "AND 0x000C\nORA 0x00FF\nJMP 0x00C0DE\n")):
        for rom, lo_org, up_org in (("low", "0x00b0c0", "0x00B0C0"), ("high", "0x40ab00", "0x40AB00")):
            out.append({"kind": "hex-case-padded", "rom": rom, "src": f"*={up_org}\n{upper}end:\n.dl end\n", "files": {},
                        "twin": {"src": f"*={lo_org}\n{lower}end:\n.dl end\n", "rom": rom, "files": {}}, "spec": {"t": "twin", "labels": True}})
    return out
