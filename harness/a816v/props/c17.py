"""C17 — errors point at the statement that caused them."""
from __future__ import annotations

from .. import asmdriver, e2e, progen
from ..e2e import HEADER, CASE_TYPE, CHECK, MODEL_VIEW, SHARD, CASE_TIMEOUT, observe, coq_term, nontrivial_key, tags  # noqa: F401

ID = "C17"
THEOREMS = ["C17_inv", "C17_token_pos", "C17_lines", "C17_lex_error", "C17_node_error_label_pass", "C17_node_error_emit",
            "C17_prefix_line", "C17_prefix_col", "C17_prefix_text", "C17_file_info", "C17_file_info_not_before",
            "C17_leading_lines", "C17_prefix_only_counts", "C17_rest_tokens", "C17_leading_lines_includes",
            "C17_eof_token", "C17_eof_token_expression", "C17_eof_trace", "C17_parse_error_locus", "C17_parse_error_token"]
# model-tie modules whose correspondence is part of this property's check (parts of the model its theorems rest on)
TIES = ['SCAN', 'PARSE', 'MSG']
RULE = ("valid generated programs x every top-level line position x erroneous statement kind (undefined symbol in an "
        "operand, in .db/.dw/.dl, in *=; bad size suffix; bad index register; unterminated string with and without a "
        "following line; invalid character; .text without table), in the main file (also after an .include of a correct file) and in an .include'd file, "
        "at top level or inside a block / scope / .if / .else / .for / macro body / nested constructs, with random "
        "indentation and preceded by comments, blank lines, blocks, macro definitions and multi-line comments; the reported "
        "(file, zero-based line, column for lexical errors, quoted line) must be the statement's; non-trivial: every case")
PROVED_NOTE = ("proved: the scanner's line-tracking invariant; every token's line/column are the closed forms of its start "
               "offset and lines[line] is that line's text; each lexical error is reported at the start of the offending "
               "token with its line quoted; a NodeError raised in a pass carries the file_info token of the failing node; the "
               "closed forms are prefix independent (line shifted by the number of preceding newlines, column and quoted "
               "line unchanged). every statement's node carries as file_info a token of the statement itself at a "
               "fixed offset (parser model). COMPOSED on source text (assemble_source): comment/blank lines in front of any source "
               "shift every report (scanner error, parser error, NodeError site) by exactly their number and change nothing else; "
               "for two layouts of the same prefix statements a NodeError of the rest is reported with the same token, column "
               "and file and the line moved by the difference of the line counts (scanner compositional at line ends; parser, code "
               "generation and passes proved blind to positions). The TEXT of the reports (Position.__str__, Token.trace, "
               "NodeError.__str__, the string parse_as_ast returns) is modelled (Model/Messages.v), proved to determine and be "
               "determined by the fields, to quote line_text and to put the caret at col_of, prefix independent, and tied by exact "
               "string comparison (model tie MSG). Correspondence-only: that the code computes what the models compute; "
               "messages that embed object addresses are compared by prefix/suffix.")
MANIFEST = {
    "text": ("Coq theorems on the scanner model (positions of tokens and of every ScannerException site, for all texts) and "
             "on the pass model (site of a NodeError), plus prefix-independence of the closed forms; composed pipeline model "
             "tied to the code by planting errors at every line position and comparing file/line/column/quoted line; oracle: "
             "the implementation's report equals the planted location."),
    "note": "Trusted: Coq kernel/vm_compute, harness, CPython str semantics as modelled (code points, ASCII lower-casing). No axioms.",
    "technique": "Coq proof (scanner invariant, closed forms) + planted-error correspondence + location oracle",
}

# (kind, text, column of the reported character relative to the statement start or None, lexical?)
ERRORS = [
    ("undef-operand", "lda zz_undef_name", None), ("undef-operand-sized", "sta.w zz_undef_name,x", None),
    ("undef-db", ".db 1, zz_undef_name", None), ("undef-dw", ".dw zz_undef_name + 1", None), ("undef-dl", ".dl zz_undef_name", None),
    ("undef-org", "*=zz_undef_name", None), ("text-no-table", ".text 'abc'", None),
    ("bad-suffix", "lda.q #1", 4), ("bad-suffix-eol", "lda.", 4), ("bad-index", "lda 0x10,z", 9), ("bad-index-spaced", "lda 0x10 ,  q", 12),
    ("unterminated-string", ".ascii 'abc", 7), ("invalid-char", "lda #1 ?", 7), ("invalid-char-start", "$", 0),
    ("unknown-keyword", ".bogus 1", 1), ("unterminated-comment", "/* never closed", 0),
    # a code lookup of a name bound to a number: the NodeError raised DURING code generation carries the statement's place
    ("code-lookup-number", "{{zz_cl5}}", None, "zz_cl5 := 5"), ("code-lookup-number-hex", "{{zz_cl16}} ; here", None, "zz_cl16 := 0x10"),
    # offending lines longer than any screen: quoted in full, the column still an index into the quoted text
    ("undef-long-line", ".dw " + ", ".join(["0x1234"] * 22) + ", zz_undef_name", None),
    ("bad-suffix-long-line", "zz_" + "a" * 125 + ": lda.q #1", 128 + 2 + 4),
    ("undef-long-comment", ".dw zz_undef_name ; " + "comment " * 20, None),
    # syntax errors whose offending token stands on the statement's own line (a statement that merely ends too early is
    # reported at the NEXT token, wherever that is: C17_parse_error_locus)
    ("syntax-second-comma", ".db 1, ,", 7), ("syntax-macro-number", ".macro 1", 7), ("syntax-if-brace", ".if {", 4),
    ("syntax-index-combination", "lda (1,x),y", 10), ("syntax-for-number", ".for 1 := 0, 2 {", 5),
    # a string left open whose last character is a backslash, with a quote on the next line: still THIS line's error
    ("unterminated-string-backslash", ".ascii 'C:\\", 7), ("unterminated-string-backslash-q", ".ascii 'it\\'s\\", 7),
    # a statement continued on the following lines (newlines are blanks between tokens): the report names the line the
    # statement STARTS on and quotes that line
    ("undef-dw-continued", ".dw\n    0x1234,\n    zz_undef_name", None), ("undef-db-continued", ".db 1,\n    zz_undef_name", None),
    ("undef-operand-continued", "lda.w\n    zz_undef_name", None),
    # (not planted: `*=` / `@=` continued on the next line — their site is the first token of the expression, i.e. the
    #  second line of the statement, DESIGN S.6)
    # the same expression text appears earlier in a correct statement (where the name is visible): the report must
    # point at THIS statement, not at the earlier one (4th field: lines placed before the statement)
    ("undef-same-text-db", ".db zz_in + 1", None, "{\nzz_in = 5\n.db zz_in + 1\n}"),
    ("undef-same-text-op", "lda.w zz_in2", None, ".scope zz_sc {\nzz_in2:\nlda.w zz_in2\n}"),
    ("undef-same-text-reloc", "@=zz_in3", None, "{\nzz_in3 := 0x7e0000\n@=zz_in3\nnop\n}"),
]
NOISE = ["", "", "; a comment", "   ; indented comment", "/* one line */", "/* two\n   lines */", "{\n    nop\n}",
         ".macro zz_noise(a) {\n    .db a\n}", "\n\n", "zz_noise_label:", "nop ; trailing",
         # characters that other line-splitting conventions treat as line ends, where the assembler accepts them as text
         # (no CR: Python's text-mode reader turns it into a newline before the assembler sees an included file)
         "; page\x0cbreak", "/* sep\u2028arator */", "; vt\x0b fs\x1c gs\x1d rs\x1e nel\x85 ps\u2029", "/* ff\x0c */", ".ascii 'a\x0cb'", "/*/ slash first */", "/*** stars ***/", "/**/", "\n", "; only\n\n; comments\n"]


# (name, lines opening the construct, lines closing it)
WRAPS = [("block", ["{"], ["}"]), ("scope", [".scope zz_ws {"], ["}"]), ("if", [".if 1 {"], ["}"]),
         ("if-else", [".if 0 {", "nop", "} else {"], ["}"]), ("for", [".for zz_wi := 0, 1 {"], ["}"]),
         ("macro", [".macro zz_wm() {"], ["}", "zz_wm()"]), ("nested", ["{", ".scope zz_wn {", ".if 1 {"], ["}", "}", "}"]),
         ("macro-in-for", [".macro zz_wf() {"], ["}", ".for zz_wj := 0, 1 {", "zz_wf()", "}"]),
         ("macro-in-macro", [".macro zz_wo() {", ".macro zz_wi() {"], ["}", "zz_wi()", "}", "zz_wo()"]),
         ("code-argument", [".macro zz_wc(zz_c) {", "nop", "{{zz_c}}", "}", "zz_wc({"], ["})"]),
         ("for-in-if", [".if 1 {", ".for zz_wk := 0, 1 {"], ["}", "}"])]


def cases(ctx):
    rng, tier = ctx["rng"], ctx["tier"]
    out = []
    reps = 8 if tier == "quick" else 120
    for rep in range(reps):
        for kind, stmt, col, *pre in ERRORS:
            for where in ("main", "include"):
                rom = rng.choice(["low", "high"])
                g = progen.Gen(rng, rom=rom, features={"blocks", "scopes", "macros", "if", "for", "data", "ascii", "symbols"})
                base = progen.render(g.program(rng.randrange(1, 6))) + "\n"
                for _ in range(20):        # the surrounding program itself must be valid
                    if "ok" in asmdriver.assemble(base, rom=rom):
                        break
                    base = progen.render(g.program(rng.randrange(1, 6))) + "\n"
                lines = base.split("\n")
                depth, spots = 0, []
                for i, ln in enumerate(lines):
                    if depth == 0 and i > 0:
                        spots.append(i)
                    depth += ln.count("{") - ln.count("}")
                pos = rng.choice(spots)
                noise = "\n".join(pre + [rng.choice(NOISE) for _ in range(rng.randrange(0, 4))])
                indent = rng.choice(["", "", "  ", "    ", "\t"])
                tail = rng.choice(["", "", "nop", "; after"])
                if kind in ("unterminated-comment",) and tail:
                    tail = ""
                if kind.startswith("unterminated-string-backslash"):
                    tail = rng.choice([".ascii 'ok'", "lda.b #1 ; it's fine", "nop ; ' \\'"])
                err_line = indent + stmt
                # the statement may stand inside an enclosing construct (the report still names ITS line), and in the
                # main file it may come after an .include of a correct file (whose lines do not count)
                wrap = rng.choice(WRAPS) if rng.random() < 0.45 else None
                head = list(wrap[1]) if wrap else []
                foot = list(wrap[2]) if wrap else []
                if where == "main" and rng.random() < 0.3:
                    head = [".include 'inc/ok.s'"] + head
                noise = "\n".join(([noise] if noise else []) + head)
                block = ([noise] if noise else []) + [err_line] + ([tail] if tail else []) + foot
                if where == "main":
                    new_lines = lines[:pos] + block + lines[pos:]
                    src = "\n".join(new_lines)
                    line_no = len("\n".join(lines[:pos] + ([noise] if noise else [])).split("\n")) if (pos or noise) else 0
                    line_no = ("\n".join(lines[:pos] + ([noise] if noise else []) + [""])).count("\n")
                    files, fname = ({"inc/ok.s": "; a correct included file\nzz_inc_ok:\n    nop\n\n    rts\n"}
                                    if ".include 'inc/ok.s'" in src else {}), e2e.FNAME
                else:
                    inc_lines = ["; included file", "inc_label:", "    nop"] + block + ["rts"]
                    inc = "\n".join(inc_lines) + "\n"
                    line_no = ("\n".join(["; included file", "inc_label:", "    nop"] + ([noise] if noise else []) + [""])).count("\n")
                    src = "\n".join(lines[:pos] + [".include 'inc/part.s'"] + lines[pos:])
                    files, fname = {"inc/part.s": inc}, "inc/part.s"
                # blank lines in front of the main file (they count), and the same report through the file API / the command line
                lead = rng.choice([0, 0, 0, 1, 2, 3]) if where == "main" else 0
                if lead:
                    src = rng.choice(["\n", " \n", "\t\n"]) * lead + src
                    line_no += lead
                c = {"kind": f"{kind}:{where}", "rom": rom, "src": src, "files": files, "count_empty": True,
                     "spec": {"t": "c17", "file": fname, "line": line_no,
                              "col": None if col is None else col + len(indent), "text": err_line.split("\n")[0]}}
                r = rng.random()
                if r < 0.3:
                    c.update({"api": True, "format": rng.choice(["ips", "sfc"]), "mapping": rom, "copier": False})
                if r < 0.08:
                    c["cli"] = True
                out.append(c)
    # two different included files with the same text: an error in the second is reported under ITS name
    same = "    nop\n    .dw zz_local + 1\n    lda.w zz_local\n"
    for second_err in (".dw", "lda.w"):
        txt2 = same
        main = (".scope zz_one {\nzz_local = 1\n.include 'inc/one.s'\n}\n.scope zz_two {\n.include 'inc/two.s'\n}\n")
        out.append({"kind": "same-text-includes", "rom": "low", "src": "*=0x008000\n" + main, "count_empty": True,
                    "files": {"inc/one.s": same, "inc/two.s": txt2},
                    "spec": {"t": "c17", "file": "inc/two.s", "line": 1, "col": None, "text": "    .dw zz_local + 1"}})
    return out
