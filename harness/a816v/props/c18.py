"""C18 — table-encoded text follows the table and round-trips.

Correspondence of script.Table (to_bytes / to_text, loaded from generated .tbl files) and of `.table` / `.text`
through the assembler with Model/Table.v; spec oracle from Spec/TableSpec.v via Oracle/C18o.v; theorems in
Properties/C18.v."""
from __future__ import annotations

import os
import shutil
import tempfile

from .. import common as C
from ..obs import observe_call, obs_term

ID = "C18"
HEADER = "From A816 Require Import Oracle.C18o."
CASE_TYPE = "case"
CHECK = "check"
MODEL_VIEW = "model_view"
THEOREMS = ["C18_loads", "C18_to_bytes", "C18_to_bytes_total", "C18_bound_quirk_harmless", "C18_tok_items",
            "C18_tok_functional", "C18_roundtrip", "C18_roundtrip_items", "C18_single", "C18_no_bracket_joker_free",
            "C18_to_text_total", "C18_length", "C18_scope", "C18_program", "C18_oracle_tokenise", "C18_oracle_rt_table",
            "C18_nonvacuous_encode", "C18_nonvacuous_roundtrip", "C18_nonvacuous_single", "C18_note_max_bytes_quirk",
            "C18F_match_deterministic", "C18F_search_sound", "C18F_search_complete", "C18F_match_unique_groups",
            "C18F_match_exists_iff", "C18F_match_shape", "C18F_line_match", "C18F_line_roundtrip",
            "C18F_line_roundtrip_no_newline", "C18F_unescape_escape", "C18F_file_roundtrip", "C18F_file_roundtrip_no_final_newline",
            "C18F_disk_roundtrip", "C18F_entries_roundtrip", "C18F_dec_digits", "C18F_include_factors",
            "C18F_split_lines_concat", "C18F_file_to_bytes", "C18F_file_lines_to_bytes", "C18F_file_roundtrip_codec",
            "C18F_reject_not_hex", "C18F_reject_blank", "C18F_odd_hex", "C18F_odd_hex_line",
            "C18F_hex_pairs_parity", "C18F_ignore_letter", "C18F_ignore_too_long", "C18F_bad_line_rejects_file",
            "C18F_empty_file", "C18F_no_entries", "C18F_no_fuel", "C18F_nonvacuous_line",
            "C18F_nonvacuous_file", "C18F_nonvacuous_backtrack",
            "C18_text_printable", "C18_text_blocks", "C18_text_error", "C18_text_without_table", "C18_text_table_in_block_invisible", "C18_text_nested_blocks_inherit", "C18_text_inner_table_shadows", "C18_text_program", "C18_text_program_file", "C18_table_node_transparent"]
THEOREMS += ["C18_oracle_codec", "C18_oracle_asm", "C18_oracle_label_wraps", "C18_oracle_corr_implies_spec", "C18_oracle_check_consistent"]
PROOF_HEADER = "From A816 Require Import Properties.C18Oracle Properties.C18 Properties.C18File Properties.C18Scope Properties.C18Text."
THEOREMS += ["C18s_get_table_rule", "C18s_nearest", "C18s_nearest_encloses", "C18s_table_current_scope", "C18s_text_captures", "C18s_text_then_table", "C18s_compound_opens", "C18s_scope_opens", "C18s_macro_opens", "C18s_for_opens", "C18s_scoped_body", "C18s_macro_body_visible", "C18s_block_invisible", "C18s_scope_invisible", "C18s_macro_invisible", "C18s_for_invisible", "C18s_if_no_scope", "C18s_include_no_scope", "C18s_code_splice_no_scope", "C18s_tables_kept", "C18s_link_codegen", "C18s_embed_assemble", "C18s_embed_assemble_err", "C18s_initial_resolver_start", "C18s_embed_assemble_lorom", "C18s_embed_assemble_err_lorom", "C18s_passes", "C18s_text_node_layout", "C18s_text_node_layout_mini", "C18s_text_node_advance", "C18s_layout_program", "C18s_layout_lorom"]
# model-tie modules whose correspondence is part of this property's check (parts of the model its theorems rest on)
TIES = ['TBLFILE']

def instantiate(gen_q):
    """Per run: the side conditions of the source-text theorems (Properties/C18Text.v) hold on the tables regenerated from /repo."""
    text = ("From A816 Require Import Model.Assemble Model.Parser Spec.BusLaws Proofs.BusProofs Proofs.DataText "
            "Proofs.RoundTripParse Proofs.RoundTripProgram.\nRequire Import Run.GenBuses Run.GenOpcodes Run.GenLexicon.\n"
            + LIVE_DEF.format(L="L18") +
            "Definition C18_default : config := {| cf_rom := None; cf_defines := [] |}.\n"
            "Lemma C18_live_lexicon : RoundTripProgram.lexicon_rt (lv_lex L18) = true.\nProof. vm_compute. reflexivity. Qed.\n"
            "Lemma C18_live_keywords : kw_in (lv_lex L18) k_table = true /\\ kw_in (lv_lex L18) k_text = true /\\ kw_in (lv_lex L18) k_dl = true.\n"
            "Proof. vm_compute. repeat split; reflexivity. Qed.\n"
            "Lemma C18_live_bus : bus_agree_b (lv_low L18) lorom = true.\nProof. vm_compute. reflexivity. Qed.\n"
            "Lemma C18_live_config : low_rom_config L18 C18_default.\nProof. split; [vm_compute; reflexivity|exact I]. Qed.\n")
    return text, ["C18_live_lexicon", "C18_live_keywords", "C18_live_bus", "C18_live_config"]


LIVE_DEF = 'Definition {L} : live := {{| lv_low := Run.GenBuses.low_rom_bus; lv_high := Run.GenBuses.high_rom_bus; lv_busmap := Run.GenBuses.bus_mapping; lv_optable := Run.GenOpcodes.opcode_table; lv_prec := Run.GenOpcodes.operator_precedence; lv_lex := mk_lexicon Run.GenLexicon.mnemonics Run.GenLexicon.mnemonics_without_operand Run.GenLexicon.keywords |}}.\n'
RULE = ("generated tables (1-30 lines, single/multi-character texts with overlapping prefixes, 1-3-byte codes, duplicate "
        "texts and codes, NN:k= ignore entries, noise lines) written as .tbl files and loaded by script.Table; strings over "
        "the table alphabet plus [0xNN] escapes (also above 0xFF), unknown and non-ASCII characters: Table.to_bytes(s), "
        "Table.to_text(to_bytes(s)), Table.to_text(random bytes); and `.table`/`.text` programs with nested blocks "
        "assembled by Program.assemble_string_with_emitter; non-trivial = accepted by the implementation; distinct by "
        "(table, string/program)")
PROVED_NOTE = ("proved for all tables and strings (induction): Model to_bytes = Ok bs <-> Tok (longest match, escapes, skips; "
               "fuel sufficient; the only error is an escape above 0xFF); to_text(to_bytes s) = matched texts for tables with "
               "unique, non-empty, prefix-free codes and no ignore entries; exact round trip for single-character tables; "
               "scope rule (innermost enclosing block that loaded a table before the text); pc_after advance = emitted length; "
               "the oracle's boolean tokeniser is equivalent to the inductive specification. Correspondence-only: that "
               "script/__init__.py, TableNode/TextNode and Scope.get_table compute what the model computes. "
               "SCOPING ON THE REAL MODEL (Properties/C18Scope.v): get_table = the first table along the parent chain of the "
               "current scope; .table changes the current scope only; .text captures the table when generated; blocks, named "
               "scopes, macro applications (parent = the CALL SITE) and loop iterations open a scope whose tables are invisible "
               "afterwards, .if branches / included files / spliced code blocks do not; the mini-language of C18_scope embedded in "
               "the real AST is generated, resolved and emitted by the real model exactly as the mini-language says; a .text "
               "advances the address by its emitted length, so a label behind it is right. "
               "FILE LOADING (Properties/C18File.v, model tie TBLFILE): the .tbl line regex is modelled with its backtracking "
               "semantics and proved deterministic (= a direct matcher); a rendered well-formed line/file loads exactly the "
               "entries it denotes (any hex case, ignore field, blanks, escaped newlines, CRLF, missing final newline), so every "
               "theorem about table_of_entries speaks about file texts; odd hex count / non-decimal ignore / empty file are "
               "rejected exactly as the code does.")
EXHAUSTIVE = {"quick": False, "thorough": False}
MANIFEST = {
    "text": ("Greedy longest-match tokenisation with [0xNN] escapes and skipped unknown characters is specified inductively "
             "(Spec/TableSpec.v) and the Gallina model of Table.to_bytes is proved equivalent to it for all tables and strings, "
             "fuel sufficiency included; decoding is proved to invert encoding for tables with unique, non-empty, prefix-free "
             "codes (exactly, for single-character tables); the scope rule and the layout length are proved on the model. "
             "The model is tied to script.Table and to .table/.text in assembled programs by a correspondence run on generated "
             "table files, strings and nested-scope programs, with an independent tokeniser as oracle on the implementation's output."),
    "note": ("Trusted: Coq kernel + vm_compute; correspondence harness; CPython str/bytes/dict/re semantics as modelled "
             "(the .tbl line regex included, tied by the TBLFILE correspondence on generated file texts); hand-written Spec/TableSpec.v. No axioms."),
    "technique": "Coq proof over a Gallina model + differential correspondence with vm_compute",
}
CASE_TIMEOUT = 20

# ----------------------------------------------------------------------------- generators

LETTERS = "abcd"
WIDE = "abcdefgh ABC019.,!?-=:;é漢ß "
UNKNOWN = "zZ~#@ü世\U0001F600"


def _rand_code(rng, maxlen=3):
    return [rng.randrange(256) for _ in range(rng.randint(1, maxlen))]


def _rand_text(rng, alphabet, maxlen):
    return "".join(rng.choice(alphabet) for _ in range(rng.randint(1, maxlen)))


def _line(rng, text, code, ign):
    h = "".join(f"{b:02x}" for b in code)
    if rng.random() < 0.3:
        h = h.upper()
    pre = "" if rng.random() < 0.9 else rng.choice([" ", "\t", "  "])
    k = "" if ign is None else f":{ign}"
    return f"{h}{k}{pre}={text.replace(chr(10), chr(92) + 'n')}"


def _mk_table(rng, kind):
    """-> {"entries": [[text, code, ignore], ...], "lines": [...]}; entries = the expected parse."""
    entries = []
    if kind == "clean1":            # single-character texts, distinct one-byte codes
        alpha = rng.choice([LETTERS, WIDE, "ab", "abc[]0x14"])
        chars = list(dict.fromkeys(alpha))
        rng.shuffle(chars)
        chars = chars[:rng.randint(1, min(30, len(chars)))]
        codes = rng.sample(range(256), len(chars))
        entries = [[ch, [c], None] for ch, c in zip(chars, codes)]
    elif kind == "cleanN":          # multi-character texts, fixed-width distinct codes (prefix-free)
        width = rng.randint(1, 3)
        n = rng.randint(1, 30)
        alpha = rng.choice([LETTERS, "ab", WIDE])
        seen = set()
        for _ in range(n):
            code = tuple(rng.randrange(256) for _ in range(width))
            if code in seen:
                continue
            seen.add(code)
            entries.append([_rand_text(rng, alpha, 3), list(code), None])
        if rng.random() < 0.5:      # the classic overlap
            for t in ("a", "b", "ab", "abc"):
                code = tuple(rng.randrange(256) for _ in range(width))
                if code not in seen:
                    seen.add(code)
                    entries.append([t, list(code), None])
            rng.shuffle(entries)
    else:                            # wild: duplicates, prefix-overlapping codes, ignore entries
        n = rng.randint(1, 30)
        alpha = rng.choice([LETTERS, "ab", WIDE, "ab[0x1]"])
        for _ in range(n):
            r = rng.random()
            if entries and r < 0.12:                       # duplicate text, new code
                entries.append([rng.choice(entries)[0], _rand_code(rng), None])
            elif entries and r < 0.2:                      # duplicate code, new text
                entries.append([_rand_text(rng, alpha, 3), list(rng.choice(entries)[1]), None])
            elif entries and r < 0.28:                     # code extending another code
                entries.append([_rand_text(rng, alpha, 3), list(rng.choice(entries)[1]) + [rng.randrange(256)], None])
            elif r < 0.36:
                entries.append([_rand_text(rng, alpha, 2), _rand_code(rng, 2), rng.randint(0, 3)])
            elif r < 0.40:
                entries.append([rng.choice(["a\nb", "\n", "x\n"]), _rand_code(rng), None])
            else:
                entries.append([_rand_text(rng, alpha, 4 if rng.random() < 0.2 else 3), _rand_code(rng), None])
    lines = []
    for t, c, k in entries:
        if rng.random() < 0.08:
            lines.append(rng.choice(["", "; comment", "# not = a line", "  41=indented is no match", "xyz"]))
        lines.append(_line(rng, t, c, k))
    return {"entries": entries, "lines": lines}


def _alphabet(entries):
    return "".join(dict.fromkeys("".join(e[0] for e in entries))) or "a"


def _rand_string(rng, entries, kind, asm=False):
    alpha = _alphabet(entries)
    if asm:
        alpha = "".join(ch for ch in alpha if ch not in "'\\\n") or "a"
    n = rng.choice([0, 1, 2, 3, 5, 8, 13, 21, 34])
    out = []
    for _ in range(n):
        r = rng.random()
        if kind == "plain" or r < 0.75:
            out.append(rng.choice(entries)[0] if (rng.random() < 0.4 and not asm) else rng.choice(alpha))
        elif r < 0.85:
            out.append(rng.choice(UNKNOWN))
        elif r < 0.95:
            out.append(rng.choice(["[0x41]", "[0x0]", "[0xfF]", "[0x7]", "[0x0041]", "[0xAb]"]))
        elif r < 0.98:
            out.append(rng.choice(["[0x", "[0x]", "[0xG1]", "[0x41", "[", "]", "0x41]", "[0X41]"]))
        elif kind == "hostile":
            out.append(rng.choice(["[0x123]", "[0x100]", "[0xfff]"]))
        else:
            out.append(rng.choice(alpha))
    s = "".join(out)
    if asm:
        s = s.replace("'", "").replace("\\", "").replace("\n", "")
    return s


def _rand_bytes(rng, entries):
    out = []
    for _ in range(rng.choice([0, 1, 2, 4, 8, 16])):
        if rng.random() < 0.75:
            out += rng.choice(entries)[1]
        else:
            out.append(rng.randrange(256))
    return out


def _rand_prog(rng, ntables, depth, strings):
    """statement list; at least one statement."""
    body = []
    for _ in range(rng.randint(1, 4)):
        r = rng.random()
        if r < 0.3:
            body.append(["table", rng.randrange(ntables)])
        elif r < 0.75 or depth >= 3:
            body.append(["text", strings()])
        else:
            body.append(["block", _rand_prog(rng, ntables, depth + 1, strings)])
    return body


def cases(ctx):
    rng, tier = ctx["rng"], ctx["tier"]
    scale = 1 if tier == "quick" else 30
    out = []
    # fixed regression-style shapes first (overlaps, quirks found while modelling)
    t_over = {"entries": [["a", [0x41], None], ["b", [0x42], None], ["ab", [0x43, 0x44], None],
                          ["abc", [0x45, 0x46, 0x47], None], ["[", [0x48], None], ["ab", [0x49], None]],
              "lines": ["41=a", "42=b", "4344=ab", "454647=abc", "48=[", "49=ab"]}
    for s in ["abcab", "ab", "[0x41]a", "[0x123]", "[0xZ]a", "zzz", "a[0x1", "é a", "", "abca", "aab", "abab[0x00]c"]:
        out.append({"kind": "codec", "table": t_over, "s": s})
    # entries with a longer entry whose proper prefixes are NOT entries themselves: a text that follows the long entry part of
    # the way and then diverges still takes the shorter matches
    t_gap = {"entries": [["t", [0x54], None], ["h", [0x48], None], ["a", [0x41], None], ["the", [0x01], None], ["ab", [0x02], None],
                         ["abcd", [0x03], None], ["b", [0x42], None], ["c", [0x43], None], ["\u00e9", [0x99], None], ["caf\u00e9s", [0x04], None]],
             "lines": ["54=t", "48=h", "41=a", "01=the", "02=ab", "03=abcd", "42=b", "43=c", "99=\u00e9", "04=caf\u00e9s"]}
    for s in ["that", "thathe", "abca", "abcab", "abcd", "abc", "th", "caf\u00e9", "caf\u00e9s", "cab"]:
        out.append({"kind": "codec", "table": t_gap, "s": s})
    out.append({"kind": "asm", "tables": [t_gap], "prog": [["table", 0], ["text", "that"], ["block", [["text", "abca"], ["text", "caf\u00e9"]]]]})
    t_quirk = {"entries": [["a", [0x41, 0x42, 0x43], None], ["a", [0x44], None], ["x", [0x45], 2], ["y", [0x46], 0],
                           ["l\nm", [0x47], None]],
               "lines": ["414243=a", "44=a", "45:2=x", "46:0=y", "47=l\\nm"]}
    for b in [[0x41, 0x42, 0x43], [0x44], [0x45, 1, 2, 0x45], [0x45, 1], [0x46], [0, 255, 16, 0x47], []]:
        out.append({"kind": "text", "table": t_quirk, "bytes": b})
    out.append({"kind": "codec", "table": {"entries": [], "lines": ["; empty"]}, "s": "abc"})
    out.append({"kind": "text", "table": {"entries": [], "lines": []}, "bytes": [1, 2]})

    n_codec = 1100 * scale
    for i in range(n_codec):
        tk = rng.choice(["clean1", "cleanN", "cleanN", "wild", "wild"])
        tbl = _mk_table(rng, tk)
        if not tbl["entries"]:
            continue
        sk = "plain" if rng.random() < 0.35 else ("hostile" if rng.random() < 0.15 else "mixed")
        out.append({"kind": "codec", "table": tbl, "s": _rand_string(rng, tbl["entries"], sk), "tk": tk})
    for i in range(300 * scale):
        tbl = _mk_table(rng, rng.choice(["cleanN", "wild", "wild"]))
        if not tbl["entries"]:
            continue
        out.append({"kind": "text", "table": tbl, "bytes": _rand_bytes(rng, tbl["entries"])})
    for i in range(600 * scale):
        nt = rng.randint(1, 3)
        tables = []
        for _ in range(nt):
            t = _mk_table(rng, rng.choice(["clean1", "cleanN", "wild"]))
            while not t["entries"]:
                t = _mk_table(rng, "clean1")
            tables.append(t)
        allent = [e for t in tables for e in t["entries"]]
        hostile = rng.random() < 0.06
        prog = _rand_prog(rng, nt, 0, lambda: _rand_string(rng, allent, "hostile" if hostile else "mixed", asm=True))
        if rng.random() < 0.8 and prog[0][0] != "table":
            prog.insert(0, ["table", 0])           # most programs start with a table in the root scope
        out.append({"kind": "asm", "tables": tables, "prog": prog})
    # small separate streams: quote escapes in the source string, an empty table file, a sibling that sees no table
    esc_t = {"entries": [["a", [1], None], ["'", [2], None], ["\\", [3], None], ["\\'", [4, 5], None]],
             "lines": ["01=a", "02='", "03=\\", "0405=\\'"]}
    for s in ["a\\'a", "\\'", "aa\\'\\'a"]:
        out.append({"kind": "asm", "tables": [esc_t], "prog": [["table", 0], ["text", s]]})
    # a table with a line-break entry (`FE=\n` in the file) and .text strings that spell backslash + n: the two characters are
    # looked up like any others (with and without an entry for the backslash itself)
    for with_bs in (True, False):
        nl_t = {"entries": [["a", [1], None], ["\n", [0xFE], None], ["n", [0x6E], None], ["b", [2], None]] + ([["\\", [0x5C], None]] if with_bs else []),
                "lines": ["01=a", "FE=\\n", "6E=n", "02=b"] + (["5C=\\"] if with_bs else [])}
        for s in ["a\\nb", "\\n", "an\\n\\nb", "a\\", "\\nn"]:
            if not s.endswith("\\"):      # (a backslash before the closing quote would escape it)
                out.append({"kind": "asm", "tables": [nl_t], "prog": [["table", 0], ["text", s], ["block", [["text", "b" + s]]]]})
            out.append({"kind": "codec", "table": nl_t, "s": s})
    out.append({"kind": "asm", "tables": [{"entries": [], "lines": ["; nothing"]}], "prog": [["table", 0], ["text", "a"]]})
    out.append({"kind": "asm", "tables": [t_over], "prog": [["block", [["table", 0], ["text", "ab"]]], ["block", [["text", "ab"]]]]})
    out.append({"kind": "asm", "tables": [t_over, esc_t],
                "prog": [["table", 0], ["block", [["text", "aab"], ["table", 1], ["text", "aab"],
                                                  ["block", [["text", "a"]]]]], ["block", [["text", "ab"]]], ["text", "abc"]]})
    return out


# ----------------------------------------------------------------------------- implementation drivers

class StubWriter:
    def __init__(self):
        self.blocks = []

    def begin(self):
        pass

    def end(self):
        pass

    def write_block(self, block, block_address):
        self.blocks.append([int(block_address), list(bytes(block))])

    def write_block_header(self, *a):
        pass

    def write(self, *a):
        pass


def _write_table(d, name, tbl):
    p = os.path.join(d, name)
    with open(p, "w", encoding="utf-8", newline="\n") as f:
        f.write("".join(line + "\n" for line in tbl["lines"]))
    return p


def _source(prog, paths, indent=0):
    out = []
    for st in prog:
        if st[0] == "table":
            out.append(f".table '{paths[st[1]]}'")
        elif st[0] == "text":
            out.append(f".text '{st[1]}'")
        else:
            out.append("{")
            out += _source(st[1], paths, indent + 1)
            out.append("}")
    return out


def source_of(case, paths):
    return "*=0x008000\n" + "\n".join(_source(case["prog"], paths)) + "\nend:\n.dl end\n"


def observe(case):
    from script import Table
    C.WORK.mkdir(exist_ok=True)
    d = tempfile.mkdtemp(prefix="c18-", dir=str(C.WORK))
    try:
        if case["kind"] == "codec":
            p = _write_table(d, "t.tbl", case["table"])
            ib = observe_call(lambda: list(Table(p).to_bytes(case["s"])))

            def rt():
                t = Table(p)
                return t.to_text(t.to_bytes(case["s"]))
            return {"ok": True, "bytes": ib, "text": observe_call(rt)}
        if case["kind"] == "text":
            p = _write_table(d, "t.tbl", case["table"])
            r = observe_call(lambda: Table(p).to_text(bytes(case["bytes"])))
            return {**r, "accepted": "ok" in r}
        from a816.program import Program
        paths = [_write_table(d, f"t{i}.tbl", t) for i, t in enumerate(case["tables"])]
        src = source_of(case, paths)

        def run():
            w = StubWriter()
            err = Program().assemble_string_with_emitter(src, "m.s", w)
            if err is not None:
                raise RuntimeError("parser error: " + str(err))
            return w.blocks
        return observe_call(run)
    finally:
        shutil.rmtree(d, ignore_errors=True)


# ----------------------------------------------------------------------------- Coq terms

def _entry(e) -> str:
    return f"({C.cstr(e[0])},{C.zlist(e[1])},{C.copt(e[2], C.z)})"


def _entries(tbl) -> str:
    return C.clist(tbl["entries"], _entry)


def _stmt(st, tables) -> str:
    if st[0] == "table":
        return f"STable {_entries(tables[st[1]])}"
    if st[0] == "text":
        return f"SText {C.cstr(st[1])}"
    return f"SBlock {C.clist(st[1], lambda x: _stmt(x, tables))}"


def coq_term(case, ob):
    if case["kind"] == "codec":
        ib = ob.get("bytes", ob) if isinstance(ob, dict) else ob
        it = ob.get("text", ob) if isinstance(ob, dict) else ob
        return (f"CCodec {_entries(case['table'])} {C.cstr(case['s'])} {obs_term(ib, C.zlist)} "
                f"{obs_term(it, C.cstr)}")
    if case["kind"] == "text":
        return f"CText {_entries(case['table'])} {C.zlist(case['bytes'])} {obs_term(ob, C.cstr)}"
    blocks = lambda bl: C.clist(bl, lambda b: C.cpair(C.z(b[0]), C.zlist(b[1])))
    return f"CAsm {C.clist(case['prog'], lambda x: _stmt(x, case['tables']))} {obs_term(ob, blocks)}"


def _accepted(case, ob) -> bool:
    if case["kind"] == "codec":
        return isinstance(ob.get("bytes"), dict) and "ok" in ob["bytes"]
    return "ok" in ob and ob.get("ok") is not None and "err" not in ob


def nontrivial_key(case, ob):
    if not isinstance(ob, dict) or not _accepted(case, ob):
        return None
    if case["kind"] == "codec":
        return ["codec", C.short_hash(case["table"]["entries"]), case["s"]]
    if case["kind"] == "text":
        return ["text", C.short_hash(case["table"]["entries"]), case["bytes"]]
    return ["asm", C.short_hash([t["entries"] for t in case["tables"]]), C.short_hash(case["prog"])]


def _rt_table(entries) -> bool:
    for t1, c1, k1 in entries:
        if not c1 or k1 is not None:
            return False
        for t2, c2, _ in entries:
            if c2[:len(c1)] == c1 and not (c1 == c2 and t1 == t2):
                return False
    return True


def _depth(prog) -> int:
    return max([1 + _depth(st[1]) for st in prog if st[0] == "block"] + [0])


def tags(case, ob):
    acc = "ok" if isinstance(ob, dict) and _accepted(case, ob) else "rejected"
    if case["kind"] == "codec":
        rt = "roundtrip-table" if _rt_table(case["table"]["entries"]) else "general-table"
        single = ":single" if all(len(e[0]) == 1 for e in case["table"]["entries"]) else ""
        jk = ":joker" if "[0x" in case["s"] else ""
        return [f"codec:{rt}{single}{jk}:{acc}"]
    if case["kind"] == "text":
        return [f"to_text:{acc}"]
    return [f"asm:depth{_depth(case['prog'])}:{acc}"]


def search(ctx, evaluate):
    """After a proof/correspondence break: dense sweep of overlapping tables (every subset order of a, b, ab, abc,
    bc with distinct one-byte codes) x short strings over {a, b, c, z, [0x41], [0x123]}; first spec failure wins."""
    import itertools
    rng = ctx["rng"]
    texts = ["a", "b", "ab", "abc", "bc"]
    atoms = ["a", "b", "c", "z", "[0x41]"]
    strings = ["".join(p) for n in range(0, 5) for p in itertools.product(atoms, repeat=n)]
    cs = []
    for k in range(1, len(texts) + 1):
        for sub in itertools.combinations(texts, k):
            order = list(sub)
            rng.shuffle(order)
            entries = [[t, [0x41 + i], None] for i, t in enumerate(order)]
            tbl = {"entries": entries, "lines": [f"{c[0]:02x}={t}" for t, c, _ in entries]}
            for s in rng.sample(strings, 40):
                cs.append({"kind": "codec", "table": tbl, "s": s})
            cs.append({"kind": "asm", "tables": [tbl], "prog": [["table", 0], ["text", rng.choice(strings)],
                                                               ["block", [["text", rng.choice(strings)]]]]})
    for c, o, corr_ok, spec_ok in evaluate(cs):
        if not spec_ok:
            return c, o
    return None
