"""C19 — assemblies are independent of each other and repeatable."""
from __future__ import annotations

import hashlib
import json
import os
import subprocess
import sys

from .. import common as C
from .. import e2e, progen
from ..e2e import HEADER, CASE_TYPE, CHECK, MODEL_VIEW, SHARD, CASE_TIMEOUT, coq_term, nontrivial_key, tags  # noqa: F401
from . import e2e as e2emod

ID = "C19"
THEOREMS = ["C19_frozen", "C19_history", "C19_repeat", "C19_bus_map_refused", "C19_bus_unmap_refused", "C19_own_bus"]
RULE = ("histories of 1-8 assemblies (valid, failing at scan / parse / code generation / emission, with custom .map "
        "mappings, under each ROM type, defining macros, symbols, tables and labels named like the probe's) run in ONE "
        "process before a probe program; the probe's blocks, labels and error are compared with the probe assembled alone in "
        "a FRESH process and with the model (also: whole histories run inside ONE project directory with sub-directories and failing includes, nothing reset in between); after the history a structural fingerprint of every module-level mutable object "
        "of a816.* / script.* must be unchanged; the probe is also repeated; non-trivial: every history")
PROVED_NOTE = ("proved on the process model: serving a request never changes the shared state, hence the response to a probe is "
               "independent of any history and repeatable; frozen buses refuse map/unmap; a program's .map lines go to its "
               "own fresh bus. The extent of the shared state is validated, not assumed: live fingerprint of all module-level "
               "objects. Python module state is an open world: partial in that sense.")
MANIFEST = {
    "text": ("PARTIAL as a proof. In the model an assembly is a pure function of (source, files, options) and the shared state "
             "is returned unchanged by construction, so the Coq theorems (history independence by induction over the history, "
             "repeatability, frozen buses refuse map/unmap, a program's .map lines go to its own bus) state the modelling "
             "assumption rather than establish it; what carries the property is the tie: histories of 1-8 assemblies (valid, "
             "failing at every stage, under other mappings, in one shared project directory) run in one process and compared "
             "with the same probe in a fresh process under another hash seed, repeated twice, plus a fingerprint of every "
             "module-level object, class attribute, default argument, closure cell and memo-cache size that directs a battery of probes."),
    "note": ("Python module state is an open world: the fingerprint bounds what could be shared, the history runs sample it. "
             "Trusted: Coq kernel/vm_compute, harness, CPython semantics as modelled. No axioms."),
    "technique": "history correspondence against fresh processes + live state fingerprint; Coq theorems on the process-state model state the assumption",
}
MAX_TASKS_PER_CHILD = 20


def fingerprint() -> str:
    """Structural hash of every module-level mutable object an assembly could reach."""
    import importlib
    import pkgutil
    import a816
    import script
    mods = []
    for pkg in (a816, script):
        mods.append(pkg)
        for m in pkgutil.walk_packages(pkg.__path__, pkg.__name__ + "."):
            try:
                mods.append(importlib.import_module(m.name))
            except Exception:
                pass
    stack: list[int] = []        # ids on the current path only (cycle detection without id-reuse artefacts)

    def canon(x, depth=0):
        if depth > 6:
            return "..."
        if isinstance(x, (int, str, bytes, bool, float, type(None))):
            return repr(x)
        if id(x) in stack:
            return "<cycle>"
        stack.append(id(x))
        try:
            if isinstance(x, dict):
                return "{" + ",".join(f"{canon(k, depth + 1)}:{canon(v, depth + 1)}" for k, v in x.items()) + "}"
            if isinstance(x, (list, tuple)):
                return "[" + ",".join(canon(v, depth + 1) for v in x) + "]"
            if isinstance(x, (set, frozenset)):
                return "{" + ",".join(sorted(canon(v, depth + 1) for v in x)) + "}"
            if hasattr(x, "name") and hasattr(x, "value") and type(x).__module__.split(".")[0] in ("a816", "script"):
                return f"{type(x).__name__}.{x.name}"
            if hasattr(x, "__dict__") and type(x).__module__.split(".")[0] in ("a816", "script") and not isinstance(x, type):
                return type(x).__name__ + canon(vars(x), depth + 1)
            return type(x).__name__
        finally:
            stack.pop()
    parts = []

    def func_state(qual, f):
        """Hidden per-function state: default argument values, keyword defaults, closure cells, memo caches."""
        import functools
        import types
        g = getattr(f, "__wrapped__", None)
        if hasattr(f, "cache_info"):
            try:
                parts.append(f"{qual}@cache={f.cache_info().currsize}")
            except Exception:
                pass
        for fn in (f, g):
            if isinstance(fn, (types.FunctionType,)):
                if fn.__defaults__:
                    parts.append(f"{qual}@defaults={canon(list(fn.__defaults__))}")
                if fn.__kwdefaults__:
                    parts.append(f"{qual}@kwdefaults={canon(fn.__kwdefaults__)}")
                if fn.__closure__:
                    cells = []
                    for c in fn.__closure__:
                        try:
                            v = c.cell_contents
                        except ValueError:
                            continue
                        if isinstance(v, (dict, list, set)):
                            cells.append(canon(v))
                    if cells:
                        parts.append(f"{qual}@closure={cells}")

    for m in mods:
        for name, val in sorted(vars(m).items()):
            if name.startswith("__"):
                continue
            if callable(val) and getattr(val, "__module__", None) == m.__name__ and not isinstance(val, type):
                func_state(f"{m.__name__}.{name}", val)
            if isinstance(val, type) and val.__module__ == m.__name__:
                for an, av in sorted(vars(val).items()):
                    raw = av.__func__ if isinstance(av, (staticmethod, classmethod)) else av
                    if callable(raw) and not isinstance(raw, type):
                        func_state(f"{m.__name__}.{name}.{an}", raw)
            if isinstance(val, (dict, list, set)) or (hasattr(val, "__dict__") and not isinstance(val, type)
                                                     and type(val).__module__.split(".")[0] in ("a816", "script")):
                parts.append(f"{m.__name__}.{name}={canon(val)}")
            elif isinstance(val, type) and val.__module__ == m.__name__:
                attrs = {k: v for k, v in vars(val).items() if not k.startswith("__") and not callable(v)
                         and not isinstance(v, (property, staticmethod, classmethod))}
                parts.append(f"{m.__name__}.{name}::{canon(attrs)}")
    return hashlib.sha256("\n".join(parts).encode()).hexdigest()


BRANCHY = ("*=0x408000\nback:\nnop\nbpl back\nbra back\nbne fwd\nbeq back\nbcc fwd\nbcs back\nbmi fwd\n"
           "fwd:\nrts\n")
HISTORY_SNIPPETS = [
    "*=0x008000\n.macro probe_m(a) {\n.db a, a\n}\nshared:\nprobe_m(1)\n",
    ".map identifier=1 bank_range=0x00,0x3f addr_range=0x8000,0xffff mask=0x8000\n*=0x008000\nshared:\n.dl shared\n",
    ".map identifier=9 bank_range=0x00,0xff addr_range=0,0xffff mask=0x10000 writable=1\n*=0x008000\nnop\n",
    "*=0x008000\nshared := 0x42\nk_a := 7\n.db shared\n",
    "*=0x008000\n.table 't.tbl'\n.text 'abab'\n",
    "*=0x008000\nlda.q #1\n", "*=0x008000\n.db 'oops\n", "*=0x008000\nlda (1\n", "*=0x008000\nlda nowhere\n",
    "*=0x008000\n.dw nowhere\nshared:\n", "*=0x7d0000\nnop\n", "*=0x008000\nbra far\n.incbin 'pad.bin'\nfar:\n",
    "*=0x008000\nundefined_macro(1)\n", "/* open\n", "*=0x008000\n@=0x7e0000\nhere:\nbra here\n",
    "*=0x008000\n.scope shared {\nx:\n}\n.dl shared.x\n", "*=0x008000\n.for i := 0, 4 {\n.db i\n}\n",
    # failures DURING emission, after bytes of the block were already produced (what an aborted emission held must not
    # reach the next assembly)
    "*=0x008000\nlda.w #0x1234\njsr.w zz_missing\n", "*=0x008000\n.db 1, 2, 3\n.dw zz_missing\n",
    "*=0x008000\nnop\nnop\nbra zz_far\n.incbin 'pad.bin'\nzz_far:\n", "*=0x018000\n.ascii 'left over'\nlda.l 0x1000000\n",
    # every branch mnemonic to a target whose logical address is valid under each mapping but lies at another file offset
    BRANCHY, BRANCHY.replace("0x408000", "0x418000"),
    ".map identifier=1 bank_range=0x40,0x6f addr_range=0,0xffff mask=0x10000\n" + BRANCHY,
]
HIST_FILES = {"t.tbl": {"tbl": [("a", [1]), ("b", [2]), ("ab", [3])]}, "pad.bin": [0] * 300}


# one project directory shared by the whole history and the probe (relative file names, sub-directories)
SHARED_FILES = {"defs.s": "val := 0x11\n", "lib/defs.s": "val := 0x99\n", "data.bin": [1, 2, 3], "lib/data.bin": [9, 9],
                "lib/good.s": "nop\n", "lib/broken.s": "nop\nlda (1\n", "lib/badsuffix.s": "lda.q #1\n",
                "lib/outer.s": "nop\n.include 'zz_missing.s'\n", "lib/undef.s": ".dw zz_nowhere\n",
                "lib/nested.s": ".include 'lib/good.s'\nrts\n", "t.tbl": {"tbl": [("a", [1]), ("b", [2])]},
                "lib/t.tbl": {"tbl": [("a", [7]), ("b", [8])]}}
SHARED_HISTORY = ["*=0x008000\n.include 'lib/broken.s'\n", "*=0x008000\n.include 'lib/outer.s'\n",
                  "*=0x008000\n.include 'lib/badsuffix.s'\n", "*=0x008000\n.include 'lib/good.s'\n",
                  "*=0x008000\n.include 'lib/undef.s'\n", "*=0x008000\n.include 'lib/nested.s'\n",
                  "*=0x008000\n.incbin 'lib/data.bin'\n", "*=0x008000\n.table 'lib/t.tbl'\n.text 'ab'\n",
                  "*=0x008000\n.include 'zz_missing.s'\n", "*=0x008000\n.incbin 'zz_missing.bin'\n"]
SHARED_PROBES = ["*=0x008000\n.include 'defs.s'\nlda #val\n", "*=0x008000\n.incbin 'data.bin'\nend:\n.dl end\n",
                 "*=0x008000\n.table 't.tbl'\n.text 'ab'\n", "*=0x008000\n.include 'lib/nested.s'\n.include 'defs.s'\n.db val\n"]


def cases(ctx):
    rng, tier = ctx["rng"], ctx["tier"]
    out = []
    n = 60 if tier == "quick" else 3000
    for i in range(len(SHARED_HISTORY) * len(SHARED_PROBES) if tier == "quick" else 400):
        if tier == "quick":
            hist = [SHARED_HISTORY[i % len(SHARED_HISTORY)]]
            probe = SHARED_PROBES[i // len(SHARED_HISTORY)]
        else:
            hist = [rng.choice(SHARED_HISTORY) for _ in range(rng.randrange(1, 6))]
            probe = rng.choice(SHARED_PROBES)
        out.append({"kind": "shared-dir", "rom": "low", "src": probe, "files": dict(SHARED_FILES), "shared_dir": True,
                    "history": [{"src": h, "rom": rng.choice([None, "low"])} for h in hist], "count_empty": True,
                    "spec": {"t": "twin", "labels": True}})
    # the same source assembled earlier under ANOTHER memory map (built-in or declared with .map): every address-valued
    # intermediate of the earlier run (offsets of branch targets, of labels, of positions) belongs to that run only
    usermap = ".map identifier=1 bank_range=0x40,0x6f addr_range=0,0xffff mask=0x10000 mirror_bank_range=0xc0,0xef\n"
    crossers = [BRANCHY, BRANCHY.replace("0x408000", "0xC18000"),
                "*=0x418000\nl:\n.dl l\njmp.l l\njsr.w l\nlda.l l,x\nm:\n.dw m\n*=0x408000\n.db 1\n*=0x41fff0\n.db 2\n"]
    for src in crossers:
        for hr in (None, "low", "high", "low2", "user"):
            for pr in ("low", "high", "low2"):
                if hr == pr or (hr is None and pr == "low"):
                    continue
                hist = [{"src": (usermap + src) if hr == "user" else src, "rom": None if hr == "user" else hr, "files": {}}]
                out.append({"kind": f"cross-map:{hr}:{pr}", "rom": pr, "src": src, "files": {}, "history": hist,
                            "count_empty": True, "spec": {"t": "twin", "labels": True}})
    # the same main text assembled before, when a file it includes (or reads) had another content: the files are read anew
    main = "*=0x008000\nstart:\n.include 'lib.s'\n.incbin 'blob.bin'\n.table 'tt.tbl'\n.text 'ab'\nend:\n.dl end\n"
    versions = [{"lib.s": "nop\nlda.b #1\n", "blob.bin": [1, 2, 3], "tt.tbl": {"tbl": [("a", [1]), ("b", [2])]}},
                {"lib.s": "rts\n", "blob.bin": [9], "tt.tbl": {"tbl": [("a", [7, 7]), ("b", [8])]}},
                {"lib.s": "lda (1\n", "blob.bin": [1, 2, 3], "tt.tbl": {"tbl": [("a", [1]), ("b", [2])]}},
                {"lib.s": ".dw zz_nowhere\n", "blob.bin": [], "tt.tbl": {"tbl": [("ab", [5])]}}]
    for i, old_files in enumerate(versions):
        for j, new_files in enumerate(versions):
            if i != j:
                out.append({"kind": f"rewritten-files:{i}:{j}", "rom": "low", "src": main, "files": new_files,
                            "history": [{"src": main, "files": old_files, "rom": "low"}], "count_empty": True,
                            "spec": {"t": "twin", "labels": True}})
    # interpreter-wide state sized by an earlier source (recursion limit, caches keyed by object identity): a long flat
    # source first, then a short but deeply recursive one; many multi-operator expressions first, then other ones
    flat = "*=0x008000\n" + "".join(f".db {i & 255}, {(i * 7) & 255}, {(i * 13) & 255}\n" for i in range(400))
    deep = "*=0x018000\n.macro zz_cd(n) {\n.db n & 0xFF\n.if n {\nzz_cd(n - 1)\n}\n}\nzz_cd(400)\n"
    mid = "*=0x018000\n.macro zz_cd(n) {\n.db n & 0xFF\n.if n {\nzz_cd(n - 1)\n}\n}\nzz_cd(120)\n"
    exprs_a = "*=0x008000\nfirst := 3\nsecond := 5\n" + "".join(f".dw first * {i} + second * 3 + {i}, (first + {i}) * (second - 1) + 2\n" for i in range(1, 40))
    exprs_b = "*=0x028000\nalpha := 7\nbeta := 2\n" + "".join(f".dw alpha - {i} - beta - 1, alpha * beta * {i} + 1, (({i} + alpha) & 0xFF) + (beta << 8)\n" for i in range(1, 40))
    for hist, probe in (([flat], deep), ([flat], mid), ([flat, flat], deep), ([exprs_a], exprs_b), ([exprs_a, flat], exprs_b),
                        ([exprs_b], exprs_a), ([exprs_a, exprs_a], exprs_a), ([deep], mid), ([mid], deep)):
        out.append({"kind": "interpreter-state", "rom": "low", "src": probe, "files": {},
                    "history": [{"src": h, "files": {}, "rom": "low"} for h in hist], "count_empty": True,
                    "spec": {"t": "twin", "labels": True}})
    # labels defined inside applied macros (their names in the label listing), after other programs applied macros;
    # non-ASCII text in included files and tables, after a program that read a file which is not valid UTF-8
    macro_labels = "*=0x008000\n.macro zz_w(n) {\nzz_loop:\ndex\nbne zz_loop\n.db n\n}\nzz_w(1)\nzz_w(2)\n{\nzz_w(3)\n}\n"
    other_macros = "*=0x018000\n.macro zz_o(a) {\nzz_in:\n.db a\n}\n" + "zz_o(1)\n" * 5
    accents = {"tt.tbl": {"tbl": [("\u00e9", [0x99]), ("c", [1]), ("a", [2]), ("f", [3]), ("\u00e0", [0x98])]},
               "inc.s": ".text 'caf\u00e9 d\u00e9j\u00e0'\n.ascii 'caf\u00e9'\nzz_after:\n"}
    accent_probe = "*=0x008000\n.table 'tt.tbl'\n.include 'inc.s'\n.dl zz_after\n"
    latin = {"old.s": list(b"; caf\xe9 in an old editor\nnop\n")}
    for hist, probe, files in (([(other_macros, {})], macro_labels, {}), ([(macro_labels, {})], macro_labels, {}),
                               ([(macro_labels, {}), (other_macros, {})], macro_labels, {}),
                               ([("*=0x008000\n.include 'old.s'\nrts\n", latin)], accent_probe, accents),
                               ([("*=0x008000\n.include 'old.s'\n", latin), (accent_probe, accents)], accent_probe, accents)):
        out.append({"kind": "names-and-encodings", "rom": "low", "src": probe, "files": files,
                    "history": [{"src": h, "files": f, "rom": "low"} for h, f in hist], "count_empty": True,
                    "spec": {"t": "twin", "labels": True}})
    for h in HISTORY_SNIPPETS:
        if "zz_missing" in h or "left over" in h or "zz_far" in h:
            for probe in ("*=0x008000\n.db 0xAA, 0xBB\nzz_p:\n.dl zz_p\n", "nop\nrts\n", "*=0x028000\nlda.w #0x5678\n"):
                out.append({"kind": "after-aborted-emission", "rom": "low", "src": probe, "files": {},
                            "history": [{"src": h, "files": dict(HIST_FILES), "rom": "low"}], "count_empty": True,
                            "spec": {"t": "twin", "labels": True}})
    for i in range(n):
        history = []
        for _ in range(rng.randrange(1, 9)):
            if rng.random() < 0.5:
                history.append({"src": rng.choice(HISTORY_SNIPPETS), "files": dict(HIST_FILES),
                                "rom": rng.choice([None, "low", "high", "low2"])})
            else:
                h = e2emod.text_case(rng, mutate=rng.random() < 0.4)
                history.append({"src": h["src"], "files": h["files"], "rom": h["rom"]})
        kind = rng.random()
        if kind < 0.6:
            probe = e2emod.text_case(rng, mutate=rng.random() < 0.25)
        else:
            probe = {"rom": rng.choice(["low", "high"]), "files": dict(HIST_FILES),
                     "src": rng.choice(["*=0x408000\nshared:\nprobe_m:\n.dl shared, probe_m\nlda.l shared\n",
                                        "*=0x008000\n.dw k_a\n", "*=0x008000\nprobe_m(2)\n",
                                        "*=0x008000\n.text 'ab'\n", "*=0x018000\n.db shared\n",
                                        "*=0x008000\n.table 't.tbl'\n.text 'ba'\nshared:\n.dl shared\n",
                                        "*=0x008000\n.table 't2.tbl'\n.text 'abab'\nend:\n.dl end\n", BRANCHY, BRANCHY])}
            probe["files"]["t2.tbl"] = {"tbl": [("a", [9])]}
            if probe["rom"] == "low" and probe["src"] != BRANCHY:
                probe["src"] = probe["src"].replace("0x408000", "0x028000")
        out.append({"kind": "history", "rom": probe.get("rom"), "src": probe["src"], "files": probe.get("files") or {},
                    "history": history, "count_empty": True, "spec": {"t": "twin", "labels": True}})
    return out


# probes run when the fingerprint of the process state changed (see observe)
BATTERY = [
    {"rom": "low", "files": dict(HIST_FILES), "src": "*=0x028000\nshared:\nprobe_m:\n.dl shared, probe_m\nlda.l shared\n"},
    {"rom": "low", "files": {}, "src": "*=0x008000\n.dw k_a\n"},
    {"rom": "low", "files": {}, "src": "*=0x008000\nprobe_m(2)\n"},
    {"rom": "low", "files": dict(HIST_FILES), "src": "*=0x008000\n.text 'ab'\n"},
    {"rom": "low", "files": dict(HIST_FILES), "src": "*=0x008000\n.table 't.tbl'\n.text 'abab'\nshared:\n.dl shared\n"},
    {"rom": "low", "files": {"t2.tbl": {"tbl": [("a", [9])]}}, "src": "*=0x008000\n.table 't2.tbl'\n.text 'abab'\nend:\n.dl end\n"},
    {"rom": "high", "files": {}, "src": "*=0x408000\nl:\n.dl l\nlda.l l\n"},
    {"rom": "low", "files": {}, "src": "*=0x7d0000\nnop\n"},
    {"rom": None, "files": {}, "src": "*=0x018000\n.db 1, 2\n*=0x008000\n.db 3\n"},
    {"rom": "low", "files": dict(HIST_FILES), "src": "*=0x008000\nbra far\n.incbin 'pad.bin'\nfar:\n"},
    {"rom": "low", "files": {}, "src": "*=0x008000\n.macro probe_m(a) {\n.dw a\n}\n.scope shared {\nx:\n}\nprobe_m(shared.x)\n"},
    {"rom": "low", "files": {}, "src": BRANCHY}, {"rom": "high", "files": {}, "src": BRANCHY},
    {"rom": "low2", "files": {}, "src": BRANCHY.replace("0x408000", "0xC18000")},
]

BASELINE = ("import json, sys\nfrom a816v import e2e\ncase = json.load(sys.stdin)\n"
            "print('RESULT' + json.dumps(e2e.observe_string_api(case)))\n")


def observe(case):
    import contextlib
    shared = bool(case.get("shared_dir"))
    before = fingerprint()
    probe = {"src": case["src"], "files": case.get("files"), "rom": case.get("rom")}
    # shared_dir: history and probe run in ONE directory laid out once (nothing resets the process in between)
    with (e2e.asmdriver.sandbox(e2e._files_on_disk(probe)) if shared else contextlib.nullcontext()):
        cwd_before = os.getcwd()
        for h in case["history"]:
            try:
                e2e.observe_string_api({"src": h["src"], "files": h.get("files"), "rom": h.get("rom")}, in_place=shared)
            except Exception as e:           # a watchdog timeout inside the history is the probe's problem too
                if type(e).__name__ == "Timeout":
                    raise
        first = e2e.observe_string_api(probe, in_place=shared)
        again = e2e.observe_string_api(probe, in_place=shared)
        cwd_after = os.getcwd()
        if shared:
            os.chdir(cwd_before)
    after = fingerprint()
    env = dict(os.environ, PYTHONPATH=f"{C.REPO}:{C.VERIF / 'harness'}", PYTHONHASHSEED=str(4242 + len(case["src"]) % 7), PYTHONDONTWRITEBYTECODE="1")
    p = subprocess.run([sys.executable, "-c", BASELINE], input=json.dumps(probe), env=env, capture_output=True, text=True,
                       timeout=CASE_TIMEOUT)
    line = [ln for ln in p.stdout.splitlines() if ln.startswith("RESULT")]
    alone = json.loads(line[-1][6:]) if line else {"timeout": True}
    ob = {"text": first, "twin": alone}
    strip = lambda o: {k: v for k, v in o.items() if k != "msg"}     # messages may print object addresses
    if strip(again) != strip(first):
        ob["twin"] = {"timeout": True}
        ob["note"] = "repeating the probe in the same process gave a different result"
    if before != after:
        # Some process-level state changed.  That alone is not a violation (a memo of a pure function is harmless): it
        # directs a wider search - a fixed battery of probes touching every kind of shared object is assembled here,
        # after the history, and alone in fresh processes; only a probe whose result differs is a violation.
        ob["state_changed"] = True
        for extra in BATTERY:
            here = e2e.observe_string_api(extra)
            pb = subprocess.run([sys.executable, "-c", BASELINE], input=json.dumps(extra), env=env, capture_output=True,
                                text=True, timeout=CASE_TIMEOUT)
            ln = [x for x in pb.stdout.splitlines() if x.startswith("RESULT")]
            fresh = json.loads(ln[-1][6:]) if ln else {"timeout": True}
            if strip(here) != strip(fresh):
                ob["text"], ob["twin"] = here, fresh
                ob["note"] = "process state changed during the history and this probe assembles differently afterwards"
                ob["probe"] = extra
                break
    if cwd_before != cwd_after:
        ob["twin"] = {"timeout": True}
        ob["note"] = "the working directory of the process changed during the history"
    return ob
