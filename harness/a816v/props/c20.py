"""C20 — legacy address conversions agree with the assembler's mapping."""
from __future__ import annotations

import warnings

from .. import common as C
from ..obs import observe_call, obs_term

ID = "C20"
HEADER = "From A816 Require Import Oracle.C20o.\nRequire Import Run.GenBuses."
CASE_TYPE = "anycase"
CHECK = "check_any"
THEOREMS = ["C20_low", "C20_low2", "C20_high", "C20_long_pointer", "C20_base_relative", "C20_live",
            # script/pointers.py, the users of the formulas (Properties/C20Pointers.v)
            "C20_pointers_partition", "C20_pointers_single", "C20_pointers_values", "C20_pointers_addresses",
            "C20_pointers_addresses_roundtrip", "C20_pointers_base_relative_roundtrip", "C20_pointers_dump_roundtrip",
            "C20_pointers_append", "C20_pointers_recode", "C20_pointers_recode_roundtrip",
            "C20_oracle_corr_implies_spec", "C20_oracle_corr_implies_spec_nobus", "C20_oracle_model_passes", "C20_oracle_cbus_live", "C20_oracle_cbus_needed"]
PROOF_HEADER = "From A816 Require Import Properties.C20Oracle Properties.C20 Properties.C20Pointers."
# model-tie modules whose correspondence is part of this property's check
TIES = ['PTRS']
RULE = ("rom_to_snes / snes_to_rom / their round trip at every bank boundary +-{0,1,0x7FFF,0x8000} in the three modes, "
        "random offsets of the 4 MiB space (thorough: a dense stride sweep), out-of-range and negative offsets "
        "(correspondence only); the address is also looked up in the assembler's own bus (its file offset must be the offset); long_low_rom_pointer and base_relative_16bits_pointer_formula on a grid of boundary "
        "(base, pointer) pairs; non-trivial: offset in the stated range; distinct by arguments")
PROVED_NOTE = ("proved for every offset in range (all of Z, not a sweep): rom_to_snes gives the LoROM / second LoROM / HiROM "
               "address whose mapped file offset (closed form of the built-in bus, tied to the live bus each run) is that "
               "offset; snes_to_rom maps it back (second variant below 0x200000); the two pointer formulas. "
               "Correspondence-only: that cpu_65c816.py/formulas.py compute what Model/Legacy.v computes "
               "(int(address / 0x8000) is float division: exact below 2^53).")
EXHAUSTIVE = {"quick": False, "thorough": True}
P = 2147483629


def weight(case):
    return 25 if case["kind"] == "sweep" else 1
MANIFEST = {
    "text": ("Coq theorems for all offsets in range over the Gallina model of rom_to_snes/snes_to_rom/formulas.py and the "
             "closed forms of the built-in buses (instantiated each run on the regenerated live buses); model tied to the "
             "code by differential runs on boundary-dense and random arguments; oracle: textbook address formula and "
             "textbook bus offset evaluated on the implementation's results."),
    "note": "Trusted: Coq kernel/vm_compute, table translator, harness, CPython int/float-division semantics as modelled. No axioms.",
    "technique": "Coq proof (arithmetic over Z) + regenerated live buses + differential correspondence",
}

MODE = {"low": "LowRom", "low2": "LowRom2", "high": "HighRom"}


def instantiate(gen_q):
    text = (
        "Require Import Run.GenBuses.\n"
        "From A816 Require Import Spec.BusLaws Proofs.BusProofs Properties.C20.\n"
        "Lemma c20_low_agrees : bus_agree_b Run.GenBuses.low_rom_bus lorom = true.\nProof. vm_compute. reflexivity. Qed.\n"
        "Lemma c20_high_agrees : bus_agree_b Run.GenBuses.high_rom_bus hirom = true.\nProof. vm_compute. reflexivity. Qed.\n"
        "Definition C20_live_buses := C20_live _ _ c20_low_agrees c20_high_agrees.\n"
    )
    return text, ["C20_live_buses"]


def cases(ctx):
    rng, tier = ctx["rng"], ctx["tier"]
    out = []
    offs = set()
    for bank in range(0, 0x82):
        for d in (0, 1, 0x7FFF, 0x8000, -1):
            offs.add(bank * 0x8000 + d)
    for _ in range(300 if tier == "quick" else 5000):
        offs.add(rng.randrange(0, 0x400000))
    if tier == "thorough":
        offs |= set(range(0, 0x400000, 977))
    offs |= {-1, -0x8000, 0x400000, 0x400001, 0x37FFFF, 0x380000, 0x27FFFF, 0x280000, 0x1FFFFF, 0x200000, 0x3FFFFF, 1 << 30}
    for o in sorted(offs):
        for m in ("low", "low2", "high"):
            out.append({"kind": "r2s", "o": o, "mode": m})
            out.append({"kind": "round", "o": o, "mode": m})
            if 0 <= o < 0x400000:
                out.append({"kind": "bus", "o": o, "mode": m})
    # exhaustive sweeps: every offset of the 4 MiB space in each mode (thorough); two 64K chunks (quick)
    for m in ("low", "low2", "high"):
        for chunk in (range(0, 64) if tier == "thorough" else (0, 0x37)):
            for fn in ("r2s", "round"):
                out.append({"kind": "sweep", "mode": m, "chunk": chunk, "fn": fn})
    for a in sorted({rng.randrange(0, 1 << 24) for _ in range(400)} |
                    {0, 0x8000, 0x7FFF, 0x808000, 0x807FFF, 0xC00000, 0xBFFFFF, 0xFFFFFF, 0x1000000, -1}):
        out.append({"kind": "s2r", "a": a})
    grid = [0, 1, 0x7FFF, 0x8000, 0x8001, 0xFFFF, 0x10000, 0x12345, 0x1FFFFF, 0x200000, 0x37FFFF, 0x380000, 0x7FFFFF, 0x800000, -1]
    for b in grid:
        for p in grid:
            out.append({"kind": "long", "base": b, "p": p})
    for b in (0, 1, 0x8000, 0x123456, -5):
        for v in ([0, 0], [0xFF, 0xFF], [0x34, 0x12], [1, 2, 3], [0x80, 0x00], [7], []):
            out.append({"kind": "rel", "base": b, "v": v})
    return out


def observe(case):
    warnings.simplefilter("ignore")
    from a816.cpu.cpu_65c816 import RomType, rom_to_snes, snes_to_rom
    from script.formulas import base_relative_16bits_pointer_formula, long_low_rom_pointer
    rt = {"low": RomType.low_rom, "low2": RomType.low_rom_2, "high": RomType.high_rom}
    k = case["kind"]
    if k == "sweep":
        mode, limit = case["mode"], {"low": 0x380000, "low2": 0x280000, "high": 0x400000}[case["mode"]]
        acc = acc_in = 0
        base = case["chunk"] << 16
        for i in range(65536):
            o = base + i
            v = rom_to_snes(o, rt[mode])
            if case["fn"] == "round":
                v = snes_to_rom(v)
                specified = o < limit and not (mode == "low2" and o >= 0x200000)
            else:
                specified = o < limit
            acc = (acc * 31 + (i + 1) * v) % P
            acc_in = (acc_in * 31 + (i + 1) * (v if specified else 0)) % P
        return {"ok": [acc, acc_in]}
    if k == "bus":
        from a816 import symbols
        bus = symbols.high_rom_bus if case["mode"] == "high" else symbols.low_rom_bus
        return observe_call(lambda: bus.get_address(rom_to_snes(case["o"], rt[case["mode"]])).physical)
    if k == "r2s":
        return observe_call(lambda: rom_to_snes(case["o"], rt[case["mode"]]))
    if k == "round":
        return observe_call(lambda: snes_to_rom(rom_to_snes(case["o"], rt[case["mode"]])))
    if k == "s2r":
        return observe_call(lambda: snes_to_rom(case["a"]))
    if k == "long":
        return observe_call(lambda: list(long_low_rom_pointer(case["base"])(case["p"])))
    return observe_call(lambda: base_relative_16bits_pointer_formula(case["base"])(bytes(case["v"])))


def coq_term(case, ob):
    k = case["kind"]
    if k == "sweep":
        impl = ob.get("ok") or [-1, -1]
        fn = "SwR2S" if case["fn"] == "r2s" else "SwRound"
        return f"Swept (Sweep {MODE[case['mode']]} {C.z(case['chunk'])} {fn} {C.z(impl[0])} {C.z(impl[1])})"
    return "Plain (" + _plain_term(case, ob) + ")"


def _plain_term(case, ob):
    k = case["kind"]
    if k == "bus":
        return f"CBus {C.z(case['o'])} {MODE[case['mode']]} {obs_term(ob, lambda v: C.copt(v, C.z))}"
    if k == "r2s":
        return f"CR2S {C.z(case['o'])} {MODE[case['mode']]} {obs_term(ob, C.z)}"
    if k == "round":
        return f"CRound {C.z(case['o'])} {MODE[case['mode']]} {obs_term(ob, C.z)}"
    if k == "s2r":
        return f"CS2R {C.z(case['a'])} {obs_term(ob, C.z)}"
    if k == "long":
        return f"CLong {C.z(case['base'])} {C.z(case['p'])} {obs_term(ob, C.zlist)}"
    return f"CRel {C.z(case['base'])} {C.zlist(case['v'])} {obs_term(ob, C.z)}"


def nontrivial_key(case, ob):
    if "ok" not in ob:
        return None
    return [str(case[k]) for k in sorted(case)]


def tags(case, ob):
    return [f"{case['kind']}:{case.get('mode', '')}:{'ok' if 'ok' in ob else 'rejected'}"]
