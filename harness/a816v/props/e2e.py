"""E2E — tie of the composed pipeline (Model/Assemble.v: scan -> parse -> codegen -> passes) to
assemble_string_with_emitter on source TEXT, error reports included."""
from __future__ import annotations

from .. import e2e, progen
from ..e2e import HEADER, CASE_TYPE, CHECK, MODEL_VIEW, SHARD, CASE_TIMEOUT, observe, coq_term, nontrivial_key, tags  # noqa: F401

ID = "E2E"
THEOREMS: list[str] = []
PROOF_HEADER = "From A816 Require Import Oracle.E2Eo."
RULE = ("generated programs as source text (all statement kinds, includes, .incbin, .table/.text, .include_ips) and "
        "their single-edit mutations (deleted / duplicated / garbled lines, undefined names): blocks, labels, and the "
        "reported error (kind, file, line, column, quoted line) must equal the composed model's")
PROVED_NOTE = "model tie only"

BAD_LINES = ["lda.q #1", "lda 1,z", ".db 'abc", ".bogus 1", "lda nowhere_defined", ".dw nowhere_defined", "$$", "lda (1", "{",
             "}", ".db 1,", "x = ", "m_undefined(1)", "bra nowhere_defined", "*=0x7d0000", ".text 'no table'", "lda.",
             "/* open", ".include 'missing.s'", ".incbin 'missing.bin'", ".macro", ".if", ".for i := 0", "jmp (1),y"]


def text_case(rng, kind="generated", mutate=False):
    rom = rng.choice(["low", "low", "high", "low2"])
    g = progen.Gen(rng, rom=rom)
    tree = g.program(rng.randrange(2, 9))
    files = {}
    r = rng.random()
    if r < 0.2:
        inc = progen.Gen(rng, rom=rom, features={"data", "ascii", "blocks"})
        files["inc1.s"] = progen.render(inc.body({"consts": {}, "labels_back": [], "labels_fwd": [], "local_labels": set(),
                                                    "reuse_labels": [], "params": []}, 1, rng.randrange(1, 4))) + "\n"
        tree.insert(rng.randrange(1, len(tree) + 1), ("include", "inc1.s"))
    elif r < 0.3:
        files["blob.bin"] = [rng.randrange(256) for _ in range(rng.randrange(0, 40))]
        tree.insert(rng.randrange(1, len(tree) + 1), ("incbin", "blob.bin"))
    elif r < 0.4:
        files["t.tbl"] = {"tbl": [("a", [0x41]), ("b", [0x42]), ("ab", [0x10, 0x11]), (" ", [0x20]), ("c", [0x43, 0x44])]}
        pos = rng.randrange(1, len(tree) + 1)
        tree.insert(pos, ("table", "t.tbl"))
        tree.insert(rng.randrange(pos + 1, len(tree) + 1), ("text", rng.choice(["abc", "ab ba", "a[0x7F]b", "xyz", ""])))
    elif r < 0.47:
        import struct
        recs = b"".join(struct.pack(">BH", 0, 0x100 + 16 * i) + struct.pack(">H", 3) + bytes([i, i + 1, i + 2]) for i in range(3))
        files["p.ips"] = list(b"PATCH" + recs + struct.pack(">BH", 1, 0) + b"\x00\x00" + struct.pack(">HB", 5, 0xEE) + b"EOF")
        tree.insert(rng.randrange(1, len(tree) + 1), ("include_ips", "p.ips", rng.choice(["0", "0x200", "-0x10", "1 + 1"])))
    src = progen.render(tree) + "\n"
    if mutate:
        lines = src.split("\n")
        k = rng.random()
        i = rng.randrange(1, max(2, len(lines) - 1))
        if k < 0.5:
            lines.insert(i, rng.choice(BAD_LINES))
        elif k < 0.7:
            del lines[i]
        elif k < 0.85:
            lines.insert(i, lines[i])
        else:
            ln = lines[i]
            if ln:
                j = rng.randrange(len(ln))
                lines[i] = ln[:j] + rng.choice("'#(){}.,:=*@/;\\\x00\t") + ln[j + 1:]
        src = "\n".join(lines)
    return {"kind": kind + ("-mutated" if mutate else ""), "rom": rom, "src": src, "files": files, "count_empty": mutate}


def cases(ctx):
    rng, tier = ctx["rng"], ctx["tier"]
    n = 250 if tier == "quick" else 5000
    out = [text_case(rng) for _ in range(n)]
    out += [text_case(rng, mutate=True) for _ in range(n)]
    return out
