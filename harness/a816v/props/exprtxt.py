"""EXPRTXT — model tie of eval_expression_str on expression TEXT (scanner lex_expression driver + parser
entry point + shunting-yard + evaluation), with random spacing, all three literal bases, malformed texts."""
from __future__ import annotations

from .. import common as C
from ..obs import observe_call, obs_term
from . import c06

ID = "EXPRTXT"
HEADER = "From A816 Require Import Oracle.ExprTxto.\nRequire Import Run.GenOpcodes."
CASE_TYPE = "txcase"
CHECK = "check Run.GenOpcodes.operator_precedence"
THEOREMS: list[str] = []
PROOF_HEADER = "From A816 Require Import Oracle.ExprTxto."
RULE = ("the expression texts of the C06 generator (trees rendered with random spacing and redundant parentheses, literals in "
        "three bases, identifiers, malformed texts) evaluated by eval_expression_str and by the composed text-level model")
PROVED_NOTE = "model tie only"


def cases(ctx):
    out = []
    for c in c06.cases(ctx):
        if "text" in c and len(c["text"]) < 400:
            out.append({"kind": c["kind"], "text": c["text"], "env": c.get("env") or {}})
    extra = ["1 ?", "a,b", "1 \n 2", "", " ", "0x", "0b", "0b102", "0xg", "1 +", "+ 1", "(", ")", "()", "1 2", "1+2)", "~", "- - 1",
             "a.b", "a.b.c", "lda", "1 << -1", "~0x100000000", "08", "0o17", "1_0", "é", "1\t+\t2", "x:", "'a'", "1 == 1", "2 / 1"]
    for t in extra:
        out.append({"kind": "extra", "text": t, "env": {"a": 1, "b": 2, "lda": 3}})
    return out


def observe(case):
    from a816.parse.ast.expression import eval_expression_str
    from a816.symbols import Resolver

    def run():
        r = Resolver()
        for k, v in case["env"].items():
            r.current_scope.add_symbol(k, v)
        return eval_expression_str(case["text"], r)
    import contextlib
    import io
    import logging
    logging.disable(logging.CRITICAL)
    with contextlib.redirect_stdout(io.StringIO()), contextlib.redirect_stderr(io.StringIO()):
        return observe_call(run)


def coq_term(case, ob):
    env = C.clist(list(case["env"].items()), lambda kv: C.cpair(C.cstr(kv[0]), C.z(kv[1])))
    return f"{{| tx_text := {C.cstr(case['text'])}; tx_env := {env}; tx_impl := {obs_term(ob, C.z)} |}}"


def nontrivial_key(case, ob):
    return case["text"] if "ok" in ob else None


def tags(case, ob):
    return [f"{case['kind']}:{'value' if 'ok' in ob else 'rejected'}"]
