"""MSG — model tie of the TEXT of error reports (Model/Messages.v <-> MZParser.parse_as_ast, Token.trace, Position.__str__,
NodeError.__str__ and the messages OpcodeNode / ExpressionNode / TextNode build).

Every case is a source text run through `Program().assemble_string_with_emitter`; the observation keeps the returned
error string in full, or (`e.message`, `str(e)`) of an escaping NodeError.

Correspondence bit (Oracle/Msgo.v `corr`): scan / parse errors: `report_of (assemble_source ...)` equals the returned string
exactly; NodeError: '"' + e.message + '"' + model location suffix equals str(e) exactly and e.message matches the model's
message (exact for the OpcodeNode messages; stable suffix for undefined symbols, whose text embeds the expression's
re-rendering; stable prefix and suffix for `.text` without table, whose text embeds a memory address).

Oracle bit (`spec_ok`, no model function): for planted errors the harness builds from the planted (file, zero-based line =
number of newlines before the statement, column, statement text) the strings the report must start with / contain / end
with — "file:line:col : " and "\\n<statement line>\\n<col blanks>^" for lexical errors; the whole trace
"\\nfile:line:col TokenType.X\\n<line>\\n<blanks><carets>" for parser errors; '"' ... '" at\\nfile:line <statement line>' for
NodeErrors — and the Coq side only matches strings on the observed text.
"""
from __future__ import annotations

import contextlib
import io
import logging

from .. import asmdriver, e2e
from .. import common as C
from ..obs import exc_kind
from . import c17 as c17mod
from . import e2e as e2eprops

ID = "MSG"
HEADER = e2e.HEADER.replace("Oracle.E2Eo", "Oracle.Msgo")
CASE_TYPE = "mcase"
CHECK = "check L"
MODEL_VIEW = "model_view L"
PROOF_HEADER = "From A816 Require Import Proofs.MessagesProofs."
THEOREMS = ["parse_int_dec", "parse_position_text", "parse_scan_report_roundtrip", "scan_report_ambiguous",
            "parse_trace_report_roundtrip", "scan_report_closed_form", "scan_quoted_no_newline", "scan_report_readable",
            "scan_report_prefix", "source_scan_report_prefix", "scan_report_prefix_fields", "token_trace_shift", "trace_prefix",
            "trace_closed_form", "node_error_suffix_shift", "node_error_closed_form", "token_trace_caret", "trace_caret_width",
            "scanned_lines_lack_nl", "nodes_fail_site", "report_text_scan", "scan_report_example", "trace_example"]
_LX = "(mk_lexicon Run.GenLexicon.mnemonics Run.GenLexicon.mnemonics_without_operand Run.GenLexicon.keywords)"


def instantiate(gen_q):
    """Per-run: the side condition [lexicon_ok] of the closed-form / prefix theorems holds for the live opcode table."""
    text = (
        "From A816 Require Import Model.Messages Proofs.ScannerProofs.\n"
        "Require Import Run.GenLexicon.\n"
        f"Definition msg_live_lexicon := {_LX}.\n"
        "Lemma msg_live_lexicon_ok : lexicon_ok msg_live_lexicon = true.\n"
        "Proof. vm_compute. reflexivity. Qed.\n"
        "Definition scan_report_closed_form_live file s e := scan_report_closed_form msg_live_lexicon file s e msg_live_lexicon_ok.\n"
        "Definition scan_report_readable_live file s e txt := scan_report_readable msg_live_lexicon file s e txt msg_live_lexicon_ok.\n"
        "Definition scan_report_prefix_live file s1 s2 toks1 eof1 lines1 e q := "
        "scan_report_prefix msg_live_lexicon file s1 s2 toks1 eof1 lines1 e q msg_live_lexicon_ok.\n"
        "Definition trace_prefix_live file s1 s2 toks1 eof1 lines1 toks2 lines2 := "
        "trace_prefix msg_live_lexicon file s1 s2 toks1 eof1 lines1 toks2 lines2 msg_live_lexicon_ok.\n"
        "Definition trace_closed_form_live file s toks lines t := trace_closed_form msg_live_lexicon file s toks lines t msg_live_lexicon_ok.\n"
    )
    return text, ["scan_report_closed_form_live", "scan_report_readable_live", "scan_report_prefix_live", "trace_prefix_live",
                  "trace_closed_form_live"]


SHARD = 24
CASE_TIMEOUT = 30
RULE = ("error reports of assemble_string_with_emitter as TEXT: the C17 plants (16 erroneous statement kinds x main file / "
        "included file, random position, indentation and preceding noise), parser-error plants (16 statements whose "
        "offending token lies in the statement; incomplete statements at the end of the file with and without final "
        "newline; incomplete statements blamed on the next line), OpcodeNode message plants (undefined addressing mode, "
        "missing index, unsupported size), mutated generated programs, and short malformed texts; non-trivial = a report "
        "was produced; distinct by (source, files)")
PROVED_NOTE = ("proved on the model: the report text determines its fields (parse . print = id, exact side conditions), the "
               "quoted line and caret column are the closed forms line_text / col_of of the failing offset, whole lines "
               "inserted before change the text only in the line number, caret width = token length (EOF: last line, no "
               "caret).  Correspondence-only: that the Python f-strings print what Model/Messages.v prints.")
EXHAUSTIVE = {"quick": False, "thorough": False}

# statement, column of the offending token, its TokenType, its length
PARSE_PLANTS = [
    ("}", 0, "RBRACE", 1), ("lda (0x10,s),x", 13, "ADDRESSING_MODE_INDEX", 1), ("mvn 1,2", 4, "NUMBER", 1),
    ("x = )", 4, "RPAREN", 1), (".db ,", 4, "COMMA", 1), (".macro 5", 7, "NUMBER", 1), (".scope {", 7, "LBRACE", 1),
    (".for i = 0, 5", 7, "EQUAL", 1), ("'abc'", 0, "QUOTED_STRING", 5), (".else", 1, "KEYWORD", 4),
    (".if 1 nop", 6, "OPCODE_NAKED", 3), (".incbin x", 8, "IDENTIFIER", 1), ("lda #1 22", 7, "NUMBER", 2),
    ("{{ 5 }}", 3, "NUMBER", 1), ("byte xyz", 5, "IDENTIFIER", 3), ("*= )", 3, "RPAREN", 1),
]
# incomplete statements: the parser blames the first token of the NEXT statement (or EOF)
INCOMPLETE = ["lda #", "x := ", ".db 1 +", "lda [1", "lda (1,x", "m(", ".macro m(a b)", "{{ x", "lda.b", ".dw", "x = 1 +",
              ".include_ips 'a'", "lda (1", ".macro", ".if", ".for i := 0", ".db 1,", "x = ", "{", ".scope s {", ".if 1 {"]
# OpcodeNode messages: statement, message
OPCODE_PLANTS = [
    ("jmp (1),y", "Addressing mode (indirect_indexed) for opcode_def (jmp) is not defined."),
    ("nop 1", "Addressing mode (direct) for opcode_def (nop) is not defined."),
    ("rts #1", "Addressing mode (immediate) for opcode_def (rts) is not defined."),
    ("stz (0x10),y", "Addressing mode (indirect_indexed) for opcode_def (stz) is not defined."),
    ("jsr.l (1)", "Addressing mode (indirect) for opcode_def (jsr) is not defined."),
    ("LDA #0x123456", "lda does not supports size (l)."), ("lda.l #1", "lda does not supports size (l)."),
    ("ldx.l 0x10", "ldx does not supports size (l)."), ("rep.w #0x30", "rep does not supports size (w)."),
    ("jmp.b 0x10", "jmp does not supports size (b)."), ("pea.b 1", "pea does not supports size (b)."),
    ("lda.l #zz_undef_name", "lda does not supports size (l)."),
    ("lda 0x10", None), ("ldx 0x10", None), ("sta 1", None),      # direct_indexed is a dict: these are fine (direct)
]
SHORT_BAD = ["$", "lda #1 ?", "'", "/*", "lda.q", "lda 1,z", ".bogus", "lda.", "\x00", "nop\x00nop", "?\nnop\nnop", "a ? b\nc ? d",
             "/* a\n b", ".db 'x\nnop", "lda 1 , q\n", "#", "lda.x #1", "`", "nop \\", "é", "lda #1 é", ".é", "lda 1,é", "\t$",
             "   lda.", "lda.w", "lda .b", "x.y.z ?", "0x ?", "1 ?", "@ ?", "* ?", "= ?", ":= ?", "{{ ?", "}} ?", "[ ?", "] ?"]
BASES = ["", "nop\n", "; c\n\n", "a:\n    nop\n", "/* x\n y */\n", "{\n nop\n}\n", ".macro zz(a) {\n .db a\n}\n", "x = 5\n.db x\n",
         "  \n\t\n", "nop ; t\nrts\n", "; page\x0cbreak\n", "/* sep\u2028arator */\n", "; nel\x85 ps\u2029\n"]


# ----------------------------------------------------------------------------- generators

def _plant(rng, stmt, where, tails=("", "", "nop", "; after")):
    """-> (src, files, fname, line_no, indent, err_line): stmt planted after a valid base, in the main or an included file."""
    base = "".join(rng.choice(BASES) for _ in range(rng.randrange(0, 4)))
    indent = rng.choice(["", "", "  ", "    ", "\t"])
    tail = rng.choice(tails)
    err_line = indent + stmt
    body = base + err_line + "\n" + (tail + "\n" if tail else "")
    line_no = base.count("\n")
    if where == "main":
        return body, {}, e2e.FNAME, line_no, indent, err_line
    pre = rng.choice(["", "nop\n", "; main\n\n"])
    return pre + ".include 'inc/part.s'\nrts\n", {"inc/part.s": body}, "inc/part.s", line_no, indent, err_line


def _c17_spec(case):
    sp = case["spec"]
    f, ln, col, text = sp["file"], sp["line"], sp["col"], sp["text"]
    if col is not None and str(case.get("kind", "")).startswith("syntax-"):
        # a ParserSyntaxError is reported by Token.trace(): "\n{file}:{line}:{col} {token type}\n{line text}\n{caret}"
        return {"pre": f"\n{f}:{ln}:{col} ", "inf": f"\n{text}\n", "suf": f"\n{text}\n{' ' * col}^"}
    if col is not None:
        return {"pre": f"{f}:{ln}:{col} : ", "inf": f"\n{text}\n", "suf": f"\n{text}\n{' ' * col}^"}
    return {"pre": '"', "inf": '" at\n', "suf": f'" at\n{f}:{ln} {text}'}


def cases(ctx):
    rng, tier = ctx["rng"], ctx["tier"]
    scale = 1 if tier == "quick" else 12
    out = [{"kind": "names"}]
    # ---- the C17 plants, the oracle now on the text
    sub = dict(ctx)
    sub["tier"] = "quick"
    for rep in range(scale if tier != "quick" else 1):
        for c in c17mod.cases(sub)[:: (2 if tier == "quick" else 1)]:
            out.append({"kind": "c17:" + c["kind"], "rom": c["rom"], "src": c["src"], "files": c["files"], "spec": _c17_spec(c)})
    # ---- parser errors inside the statement
    for rep in range(3 * scale):
        for stmt, col, ty, width in PARSE_PLANTS:
            where = "main" if rep % 3 else "include"
            tails = ("", "", "nop", "; after") if stmt not in (".scope {",) else ("",)
            src, files, fname, ln, indent, err_line = _plant(rng, stmt, where, tails)
            c = col + len(indent)
            full = f"\n{fname}:{ln}:{c} TokenType.{ty}\n{err_line}\n{' ' * c}{'^' * width}"
            out.append({"kind": f"parse:{ty}:{where}", "src": src, "files": files, "spec": {"pre": full, "inf": full, "suf": full}})
    # ---- incomplete statements: at the end of the file (EOF token) and before another statement (blamed on it)
    for rep in range(2 * scale):
        for stmt in INCOMPLETE:
            base = "".join(rng.choice(BASES) for _ in range(rng.randrange(0, 3)))
            indent = rng.choice(["", "  "])
            for final_nl in (False, True):
                src = base + indent + stmt + ("\n" if final_nl else "")
                ln = src.count("\n")
                last = src.split("\n")[-1]
                full = f"\n{e2e.FNAME}:{ln}:{len(last)} TokenType.EOF\n{last}\n{' ' * len(last)}"
                out.append({"kind": "parse:EOF" + (":final-newline" if final_nl else ""), "src": src, "files": {},
                            "spec": {"pre": full, "inf": full, "suf": full}})
            if stmt not in ("{", ".scope s {", ".if 1 {", ".macro m(a b)", "/*"):
                nxt = rng.choice(["rts", "  nop", "a:", ".db 1"])
                out.append({"kind": "parse:next-line", "src": base + indent + stmt + "\n" + nxt + "\nnop\n", "files": {}, "spec": None})
    # ---- OpcodeNode messages
    for rep in range(2 * scale):
        for stmt, msg in OPCODE_PLANTS:
            where = "main" if rep % 2 == 0 else "include"
            src, files, fname, ln, indent, err_line = _plant(rng, stmt, where)
            spec = None if msg is None else {"pre": f'"{msg}" at\n', "inf": msg, "suf": f'" at\n{fname}:{ln} {err_line}'}
            out.append({"kind": "opcode-message" if msg else "opcode-ok", "src": src, "files": files, "spec": spec})
    # ---- mutated generated programs: whatever report comes out must be the model's
    for _ in range(110 * scale):
        c = e2eprops.text_case(rng, mutate=True)
        out.append({"kind": "mutated", "rom": c["rom"], "src": c["src"], "files": c["files"], "spec": None})
    # ---- short malformed texts
    for _ in range(4 * scale):
        for bad in SHORT_BAD:
            base = "".join(rng.choice(BASES) for _ in range(rng.randrange(0, 3)))
            tail = rng.choice(["", "\n", "\nnop\n", "\nrts ; x\n\n"])
            out.append({"kind": "short-malformed", "src": base + rng.choice(["", " ", "\t"]) + bad + tail, "files": {}, "spec": None})
    return out


# ----------------------------------------------------------------------------- implementation driver

def _live_names():
    from a816.cpu.cpu_65c816 import AddressingMode
    from a816.parse.tokens import TokenType
    return {"tt": [[m.value, m.name] for m in TokenType], "am": [[m.value, m.name] for m in AddressingMode],
            "fmt": f"{TokenType.EOF}"}


def observe(case):
    if case["kind"] == "names":
        return {"names": _live_names()}
    from a816.cpu.cpu_65c816 import RomType
    from a816.parse.nodes import NodeError
    from a816.program import Program
    logging.disable(logging.CRITICAL)
    with asmdriver.sandbox(e2e._files_on_disk(case)):
        program = Program()
        if case.get("rom"):
            program.resolver.rom_type = RomType[asmdriver.ROMS[case["rom"]]]
        w = asmdriver.StubWriter()
        try:
            with contextlib.redirect_stdout(io.StringIO()), contextlib.redirect_stderr(io.StringIO()):
                err = program.assemble_string_with_emitter(case["src"], e2e.FNAME, w)
        except NodeError as e:
            return {"node": [e.message, str(e)]}
        except Exception as e:
            if type(e).__name__ == "Timeout":
                raise
            return {"exc": exc_kind(e), "msg": f"{type(e).__name__}: {e}"[:200]}
        if err is not None:
            return {"text": err}
        return {"ok": True}


# ----------------------------------------------------------------------------- Coq terms

def _impl(ob) -> str:
    if not isinstance(ob, dict) or ob.get("timeout") or "driver_error" in ob:
        return "MTimeout"
    if "ok" in ob:
        return "MOk"
    if "text" in ob:
        return f"(MErrText {C.cstr(ob['text'])})"
    if "node" in ob:
        return f"(MNodeError {C.cstr(ob['node'][0])} {C.cstr(ob['node'][1])})"
    if "exc" in ob:
        return f"(MExc {ob['exc']})"
    return "MTimeout"


def coq_term(case, ob):
    if case["kind"] == "names":
        n = ob.get("names") if isinstance(ob, dict) else None
        if not n or n.get("fmt") != "TokenType.EOF":
            return "CNames [] []"
        pairs = lambda l: C.clist(l, lambda p: C.cpair(C.z(p[0]), C.cstr(p[1])))
        return f"CNames {pairs(n['tt'])} {pairs(n['am'])}"
    sp = case.get("spec")
    spec = "SNone" if not sp else f"(SText {C.cstr(sp['pre'])} {C.cstr(sp['inf'])} {C.cstr(sp['suf'])})"
    return (f"CAsm {e2e.files_term(case)} {e2e.config_term(case)} {C.cstr(e2e.FNAME)} {C.cstr(case['src'])} "
            f"{_impl(ob)} {spec}")


def weight(case) -> int:
    return 1 + len(case.get("src", "")) // 1500


def nontrivial_key(case, ob):
    if not isinstance(ob, dict) or not ("text" in ob or "node" in ob or "names" in ob):
        return None
    return C.short_hash([case.get("src"), case.get("files") and sorted(case["files"].items(), key=str)])


def tags(case, ob):
    if not isinstance(ob, dict):
        return ["?"]
    if "names" in ob:
        res = "names"
    elif "text" in ob:
        res = "report:parser-trace" if ob["text"].startswith("\n") else "report:scanner"
        if res == "report:scanner" and ob["text"].split(" : ", 1)[-1].count("\n") > 2:
            res += ":multi-line-message"
    elif "node" in ob:
        m = ob["node"][0]
        res = "report:NodeError:" + ("undefined-symbol" if m.endswith(")) is not defined in the current scope.") else
                                     "no-table" if m.startswith("table_is_not_defined") else
                                     "mode-undefined" if m.endswith("is not defined.") else
                                     "needs-index" if m.endswith("needs an index.") else
                                     "size" if "does not supports size" in m else "other")
        if '" at\n' not in ob["node"][1]:
            res += ":no-location"
    elif "exc" in ob:
        res = "exception:" + ob["exc"]
    else:
        res = "accepted" if "ok" in ob else "other"
    return [f"kind:{case['kind'].split(':')[0]}", res] + (["planted-oracle"] if case.get("spec") else [])
