"""PARSE — model tie of Model/Parser.v (M7b) with a816/parse/parser.py + parser_states.py.

Every case is a token list (scanned from a text with the REAL scanner, then possibly mutated at
token level; or built directly for token types the scanner never produces) plus the contents of the
files an `.include` may name.  `observe` runs the real `Parser(tokens, parse_initial).parse()` under
the runner's watchdog and ships (tokens, scanned include files, outcome) to Coq, where
`Oracle/Parseo.check` runs `parse_program` on the same tokens and compares the COMPLETE outcome:
every AST field including every file_info token (type, value, line, column, file); for a
ParserSyntaxError the offending token (type, value, position); for any other exception its class.
Second bit: the implementation terminated (no watchdog timeout)."""
from __future__ import annotations

import ast as pyast
import contextlib
import io
import logging
import os
import shutil
import tempfile
from pathlib import Path

from .. import common as C
from ..astexport import Exporter, Unexportable, TT
from ..obs import exc_kind

ID = "PARSE"
HEADER = "From A816 Require Import Oracle.Parseo."
CASE_TYPE = "case"
CHECK = "check"
MODEL_VIEW = "model_view"
PROOF_HEADER = "From A816 Require Import Proofs.ParserProofs Proofs.ParserCaseProofs Proofs.ParserFuelProofs."
THEOREMS = ["parse_fuel_sufficient", "parse_fuel_sufficient_ge", "parse_expression_ep_fuel_sufficient", "parse_no_internal_error",
            "parse_fuel_irrelevant",
            "parse_decl_comment_skip", "parse_initial_comment_skip", "parse_block_comment_skip",
            "parse_opcode_case_insensitive", "parse_case_insensitive_partial"]
CASE_TIMEOUT = 5
SHARD = 120
RULE = ("token lists: (a) the repository's sample sources and every string constant of tests/*.py that scans; "
        "(b) generated programs covering every statement kind and operand shape (incl. malformed index combinations, "
        "the `(1)+2` backtrack, both letter cases, .include of real files, cyclic/missing/unscannable includes); "
        "(c) single-token deletion, duplication, adjacent swap and substitution of those token lists, random token soups "
        "of length <= 6 over all 28 token types, hand-built lists with TYPE/BOOLEAN tokens; (d) truncation at every token; "
        "plus the parse_expression_ep entry point on scanned expressions and their mutations; a case is non-trivial when "
        "the token list has at least two tokens; distinct by token list")
PROVED_NOTE = ("proved on the model: parse_program with fuel >= 2*|tokens|+4 (and the same per included file) never runs out "
               "of fuel, for every token list, include map and include depth (hypothesis: scanning an included file does not "
               "run out of fuel); the model's 'cannot happen' results (backup at position 0, empty expression) are unreachable; any sufficient fuel gives the same result (parse_fuel_irrelevant); "
               "a COMMENT at a statement boundary is skipped by parse_decl / parse_initial / parse_block; the opcode statement "
               "reads size-suffix and index values only through lower() (parse_case_insensitive_partial: not lifted to whole "
               "programs); correspondence-only: that parser.py / parser_states.py compute what Model/Parser.v computes")
EXHAUSTIVE = {"quick": False, "thorough": False}
MANIFEST = {
    "text": ("Parser model tie: Model/Parser.v mirrors parser.py/parser_states.py function for function on explicit fuel; "
             "the real parser and the model are run on the same real token lists (valid programs, every token-level "
             "mutation class, token soups, truncations) and must agree on the full AST with all file_info tokens, on the "
             "offending token of a ParserSyntaxError and on the class of any other exception."),
    "note": "Trusted: Coq kernel + vm_compute; AST/token exporter; the real scanner is used to produce the token lists.",
    "technique": "Gallina model + differential correspondence with vm_compute; fuel-sufficiency theorem",
}

KEYWORDS = ["scope", "table", "include", "include_ips", "incbin", "pointer", "text", "ascii", "db", "dw", "dl",
            "macro", "map", "if", "else", "for", "struct", "istruct"]

# ------------------------------------------------------------------------------------------ tokens


def _scan(name: str, text: str, expr: bool = False):
    from a816.parse.scanner import Scanner
    from a816.parse.scanner_states import lex_expression, lex_initial
    return Scanner(lex_expression if expr else lex_initial).scan(name, text)


def _soup_tokens(spec):
    """[[type name, value], ...] -> real Token objects on one synthetic source line."""
    from a816.parse.tokens import File, Position, Token, TokenType
    f = File("soup")
    f.append(" ".join(v for _, v in spec))
    out, col = [], 0
    for ty, v in spec:
        out.append(Token(TokenType[ty], v, Position(0, col, f)))
        col += len(v) + 1
    return out


def _mutate(toks, mut):
    from a816.parse.tokens import Token, TokenType
    if not mut:
        return toks
    k = mut[0]
    n = len(toks)
    if k == "trunc":
        return toks[:mut[1]]
    i = mut[1]
    if i >= n:
        return toks
    if k == "del":
        return toks[:i] + toks[i + 1:]
    if k == "dup":
        return toks[:i + 1] + toks[i:]
    if k == "swap":
        if i + 1 >= n:
            return toks
        return toks[:i] + [toks[i + 1], toks[i]] + toks[i + 2:]
    if k == "sub":
        return toks[:i] + [Token(TokenType[mut[2]], mut[3], toks[i].position)] + toks[i + 1:]
    raise ValueError(k)


def build_tokens(case):
    if case["k"] == "soup":
        return _soup_tokens(case["toks"])
    toks = _scan(case.get("name", "main.s") if case["k"] == "prog" else "memory", case["text"], expr=case["k"] == "expr")
    return _mutate(list(toks), case.get("mut"))


class IExporter(Exporter):
    """Exporter that binds every distinct token once (`let tK := tk ... in`)."""

    def __init__(self):
        super().__init__(True)
        self.names: dict = {}
        self.defs: list[tuple[str, str]] = []

    def token(self, t) -> str:
        p = t.position
        key = (t.type.name, t.value, None if p is None else (p.line, p.column, p.file.filename))
        if key not in self.names:
            self.names[key] = f"t{len(self.names)}"
            self.defs.append((self.names[key], Exporter.token(self, t)))
        return self.names[key]

    def wrap(self, term: str) -> str:
        pre = "".join(f"let {v} := {C.cstr(name)} in\n" for name, v in self.files.items())
        pre += "".join(f"let {n} := {d} in\n" for n, d in self.defs)
        return f"({pre}{term})"


def _quiet():
    logging.disable(logging.CRITICAL)
    return contextlib.redirect_stdout(io.StringIO())


@contextlib.contextmanager
def _sandbox(files):
    """Private directory holding the include files; cwd moved there (open() is cwd-relative)."""
    C.WORK.mkdir(exist_ok=True)
    d = tempfile.mkdtemp(dir=C.WORK, prefix="parse-")
    old = os.getcwd()
    try:
        for name, content in (files or {}).items():
            Path(d, name).write_text(content, encoding="utf-8")
        os.chdir(d)
        yield d
    finally:
        os.chdir(old)
        shutil.rmtree(d, ignore_errors=True)


def _files_term(ex, files) -> str:
    from a816.parse.errors import ScannerException
    items = []
    for name, content in (files or {}).items():
        try:
            toks = _scan(name, content)
            items.append(C.cpair(C.cstr(name), f"Ok {C.clist(toks, ex.token)}"))
        except ScannerException:
            items.append(C.cpair(C.cstr(name), "Err EScan"))
    return "[" + ";".join(items) + "]"


def _case_term(case, toks, outcome) -> str:
    """outcome: ('ok', nodes|expr) | ('parse', token) | ('err', kind) | ('unrep',) | ('timeout',)"""
    ex = IExporter()
    tl = C.clist(toks, ex.token)
    with _quiet():
        fs = _files_term(ex, case.get("files")) if case["k"] != "expr" else None
    if outcome[0] == "ok":
        try:
            x = f"(XOk {ex.body(outcome[1]) if case['k'] != 'expr' else ex.expr(outcome[1])})"
        except Unexportable:
            x = "XUnrep"
    elif outcome[0] == "parse":
        x = f"(XParse {ex.token(outcome[1])})"
    elif outcome[0] == "err":
        x = f"(XErr {outcome[1]})"
    elif outcome[0] == "unrep":
        x = "XUnrep"
    else:
        x = "XTimeout"
    if case["k"] == "expr":
        return ex.wrap(f"CExpr {tl} {x}")
    return ex.wrap(f"CProg {tl} {fs} {x}")


def observe(case):
    from a816.parse.errors import ParserSyntaxError
    from a816.parse.parser import Parser
    from a816.parse.parser_states import parse_expression_ep, parse_initial
    with _sandbox(case.get("files")), _quiet():
        toks = build_tokens(case)
        entry = parse_expression_ep if case["k"] == "expr" else parse_initial
        try:
            nodes = Parser(list(toks), entry).parse()
            outcome = ("ok", nodes[0] if case["k"] == "expr" else nodes)
            tag = "ok"
        except ParserSyntaxError as e:
            outcome = ("parse", e.token)
            tag = "EParse"
        except Exception as e:
            if type(e).__name__ == "Timeout":
                raise
            outcome = ("err", exc_kind(e))
            tag = outcome[1] + ":" + type(e).__name__
        term = _case_term(case, toks, outcome)
        if outcome[0] == "ok" and " XUnrep" in term[-12:]:
            tag = "unrep"
        kinds = sorted(_kinds(outcome[1])) if outcome[0] == "ok" and case["k"] != "expr" else []
        return {"term": term, "tag": tag, "ntok": len(toks), "kinds": kinds,
                "key": C.short_hash([[t.type.name, t.value] for t in toks])}


def _kinds(nodes, acc=None):
    acc = set() if acc is None else acc
    for n in nodes:
        acc.add(type(n).__name__.replace("AstNode", ""))
        for attr in ("body", "block", "else_block"):
            b = getattr(n, attr, None)
            if b is None:
                continue
            if isinstance(b, list):
                _kinds(b, acc)
            elif hasattr(b, "body"):
                _kinds(b.body, acc)
        if type(n).__name__ == "MacroApplyAstNode":
            for a in n.args:
                if hasattr(a, "body"):
                    acc.add("BlockArg")
                    _kinds(a.body, acc)
    return acc


def coq_term(case, ob):
    if isinstance(ob, dict) and "term" in ob:
        return ob["term"]
    # watchdog timeout or driver failure: rebuild the token list here, expected = XTimeout
    with _sandbox(case.get("files")), _quiet():
        try:
            toks = build_tokens(case)
        except Exception:
            toks = []
        return _case_term(case, toks, ("timeout",))


def nontrivial_key(case, ob):
    if not isinstance(ob, dict) or "term" not in ob or ob["ntok"] < 2:
        return None
    return [case["k"], ob["key"]]


def tags(case, ob):
    if not isinstance(ob, dict) or "term" not in ob:
        return [f"{case.get('src', case['k'])}:timeout-or-driver-error"]
    out = [f"{case.get('src', case['k'])}:{ob['tag']}"]
    out += [f"node:{k}" for k in ob.get("kinds", [])]
    return out


# ------------------------------------------------------------------------------------------ generators

INC_FILES = {
    "inc1.s": "; included\ninc_label:\n    lda #0x12\n    .db 1, 2\n",
    "inc2.s": ".include 'inc1.s'\nafter = 3\n",
    "cyc.s": "nop\n.include 'cyc.s'\n",
    "cyca.s": ".include 'cycb.s'\n",
    "cycb.s": "x = 1\n.include 'cyca.s'\n",
    "badscan.s": "lda #1\n'unterminated\n",
    "badparse.s": "lda #1\n.db )\n",
    "empty.s": "",
    "blk.s": "}\n",
}


class Gen:
    def __init__(self, rng):
        from a816.cpu.cpu_65c816 import AddressingMode, get_opcodes_with_addressing, snes_opcode_table
        self.rng = rng
        self.mnems = sorted(snes_opcode_table.keys())
        self.naked = sorted(get_opcodes_with_addressing(AddressingMode.none))
        ids = ["foo", "bar", "baz", "a1", "_x", "lbl", "Q", "sc.sym", "count", "x", "y", "else", "mask", "vram_ptr"]
        self.ids = [i for i in ids if i[:3].lower() not in snes_opcode_table or len(i) != 3]
        self.ids = [i for i in self.ids if i.lower() not in snes_opcode_table]

    def r(self, xs):
        return self.rng.choice(xs)

    def ident(self):
        return self.r(self.ids)

    def number(self):
        k = self.rng.random()
        if k < 0.4:
            return str(self.rng.choice([0, 1, 2, 7, 10, 255, 256, 4096, 65535, 65536]))
        if k < 0.8:
            return "0x" + self.r(["0", "12", "FF", "ff", "100", "8000", "7e0000", "FFFFFF", "aBc"])
        if k < 0.9:
            return "0b" + self.r(["0", "1", "1010", "11111111"])
        return "0o" + self.r(["7", "17", "777"])

    def expr(self, ctx, depth=0):
        """ctx 'op' = operand context (lex_expression), 'dir' = directive context (lex_initial)."""
        ops = ["+", "-", "*", "/", "&", "|", "<<", ">>"] if ctx == "op" else ["+", "-", "&", "*", ">>", "<<", "==", "!=", ">", "<"]
        un = ["-", "~"] if ctx == "op" else ["-"]
        k = self.rng.random()
        sp = self.r(["", " "])
        if depth > 2 or k < 0.45:
            return self.number() if self.rng.random() < 0.6 else self.ident()
        if k < 0.6:
            return self.r(un) + self.expr(ctx, depth + 1)
        if k < 0.75:
            return "(" + sp + self.expr(ctx, depth + 1) + sp + ")"
        return self.expr(ctx, depth + 1) + sp + self.r(ops) + sp + self.expr(ctx, depth + 1)

    def case_of(self, s):
        k = self.rng.random()
        return s if k < 0.6 else s.upper() if k < 0.8 else s.capitalize()

    SHAPES = ["#{e}", "{e}", "{e},{x}", "{e},{y}", "{e},{s}", "({e})", "({e}),{y}", "[{e}]", "[{e}],{y}", "({e},{x})",
              "({e},{s}),{y}",
              # malformed index combinations
              "({e},{x}),{y}", "({e},{y})", "({e},{s})", "({e}),{x}", "[{e}],{x}", "#{e},{x}", "({e},{y}),{y}",
              "({e},{s}),{x}", "[{e},{x}]",
              # operands that exercise the one-shot backtrack
              "({e})+2", "({e}+2)*3", "({e})+2,{x}", "({e})*({e})", "({e},{x})+1", "({e}) + 1", "({e})-1,{y}", "(({e}))",
              "(({e}))+1", "[{e}]+1", "({e}", "{e})", "[{e}", "#", "#({e})", "#({e})+1"]

    def instr(self):
        if self.rng.random() < 0.18:
            m = self.case_of(self.r(self.naked))
            tail = self.r(["", "", " ; c", "   ", " ;"])
            if self.rng.random() < 0.2:
                return m + "." + self.r("bwlBWL") + tail
            return m + tail
        m = self.case_of(self.r(["lda", "sta", "jmp", "jsr", "ldx", "adc", "ora", "pea", "bra", "mvn", "asl", "rep"] + [self.r(self.mnems)]))
        suf = self.r(["", "", ".b", ".w", ".l", ".B", ".W", ".L"])
        shape = self.r(self.SHAPES)
        e = self.expr("op")
        up = self.rng.random() < 0.3
        idx = {k: (k.upper() if up else k) for k in "xys"}
        operand = shape.format(e=e, **idx)
        if self.rng.random() < 0.3:
            operand = operand.replace(",", self.r([" ,", ", ", " , "]))
        if self.rng.random() < 0.15:
            operand = operand.replace("(", "( ").replace(")", " )").replace("[", "[ ").replace("]", " ]")
        return f"{m}{suf} {operand}" + self.r(["", "", " ; cmt"])

    def elist(self):
        n = self.rng.choice([0, 1, 1, 2, 3, 4])
        items = [self.expr("dir") for _ in range(n)]
        s = self.r([", ", ",", " , "]).join(items)
        if n and self.rng.random() < 0.15:
            s += ","
        return s

    def margs(self, depth):
        n = self.rng.choice([0, 1, 2, 3])
        items = []
        for _ in range(n):
            if self.rng.random() < 0.25:
                items.append("{ " + self.block_body(depth + 1, 2, "\n") + " }")
            else:
                items.append(self.expr("dir"))
        s = ", ".join(items)
        if n and self.rng.random() < 0.1:
            s += ","
        return s

    def mapline(self):
        keys = ["identifier", "writable", "bank_range", "addr_range", "mask", "mirror_bank_range"]
        n = self.rng.randint(0, 6)
        ks = self.rng.sample(keys, n)
        if self.rng.random() < 0.1 and ks:
            ks.append(ks[0])
        if self.rng.random() < 0.06:
            ks.append("bogus")
        parts = []
        for k in ks:
            pair = k.endswith("range") if self.rng.random() < 0.85 else self.rng.random() < 0.5
            v = self.number() + ((self.r([",", ", "]) + self.number()) if pair else "")
            parts.append(f"{k}{self.r(['=', ' = '])}{v}")
        return ".map " + " ".join(parts)

    def stmt(self, depth=0):
        k = self.rng.random()
        d1 = depth + 1
        deep = depth >= 3
        if k < 0.30:
            return self.instr()
        if k < 0.36:
            return self.ident().replace(".", "_") + ":"
        if k < 0.42:
            return f"{self.ident()} {self.r(['=', ':='])} {self.expr('dir')}"
        if k < 0.46:
            return f"{self.r(['*=', '@='])} {self.expr('dir')}"
        if k < 0.54:
            d = self.r(["db", "dw", "dl", "pointer"])
            if self.rng.random() < 0.05:
                return f".{d} {{ nop }}"
            return f".{d} {self.elist()}"
        if k < 0.58:
            d = self.r(["ascii", "text", "incbin", "table"])
            return f".{d} '{self.r(['hello', 'a b', '', 'file.bin', 'it' + chr(92) + chr(39) + 's'])}'"
        if k < 0.60:
            return f".include_ips 'p.ips', {self.expr('dir')}"
        if k < 0.64:
            return f".include '{self.r(['inc1.s', 'inc1.s', 'inc2.s', 'empty.s', 'missing.s', 'badscan.s', 'badparse.s', 'cyc.s', 'cyca.s', 'blk.s'])}'"
        if k < 0.68:
            return self.mapline()
        if k < 0.70:
            return "{{" + self.ident().replace(".", "_") + "}}"
        if k < 0.72:
            return self.r(["; full line comment", "/* block\n comment */", ";"])
        if k < 0.75:
            return f".struct {self.ident().replace('.', '_')} {{ {self.r(['', '; c', 'byte a'])} }}"
        if deep:
            return self.instr()
        nl = self.r(["\n", "\n", " "])
        if k < 0.80:
            return f".scope {self.ident().replace('.', '_')} {{{nl}{self.block_body(d1, 3, nl)}{nl}}}"
        if k < 0.84:
            return f"{{{nl}{self.block_body(d1, 3, nl)}{nl}}}"
        if k < 0.89:
            n = self.rng.randint(0, 4)
            ps = self.r([", ", ","]).join(self.rng.sample(["a", "b", "c", "d_1", "e"], n))
            return f".macro {self.r(['m', 'mac', 'do_it'])}({ps}) {{{nl}{self.block_body(d1, 3, nl)}{nl}}}"
        if k < 0.93:
            return f"{self.r(['m', 'mac', 'do_it'])}({self.margs(depth)})"
        if k < 0.97:
            s = f".if {self.expr('dir')} {{{nl}{self.block_body(d1, 2, nl)}{nl}}}"
            if self.rng.random() < 0.5:
                s += f"{self.r([' ', nl])}{self.r(['else', 'else', '.else'])} {{{nl}{self.block_body(d1, 2, nl)}{nl}}}"
            return s
        return f".for {self.r(['i', 'k'])} := {self.expr('dir')}, {self.expr('dir')} {{{nl}{self.block_body(d1, 2, nl)}{nl}}}"

    def block_body(self, depth, maxn, nl):
        n = self.rng.randint(0, maxn)
        out = []
        for _ in range(n):
            s = self.stmt(depth)
            out.append(s)
        return "\n".join(out)

    def program(self, maxn=6):
        n = self.rng.randint(1, maxn)
        lines = []
        for _ in range(n):
            ind = self.r(["", "", "    ", "\t", "  "])
            lines.append(ind + self.stmt(0))
            if self.rng.random() < 0.1:
                lines.append("")
        return "\n".join(lines) + self.r(["\n", "", "\n\n"])


FIXED_PROGRAMS = [
    "lda (1)+2\n", "lda (1+2)*3\n", "lda (1),y\n", "lda (1,x)+2\n", "lda (1,s),y\n", "lda (1,x),y\n", "lda ((1))\n",
    "lda (1)\nsta 2\n", "LDA.W (0x10,X)\n", "lda.B [0x10],Y\n", "nop\n", "nop ; c\n", "nop.b\n", "rts", "lda", "lda #",
    "lda #\n", "lda.q 1\n" if False else "lda.l 1\n", "jmp (0x1234,x)\n", "mvn 1,2\n" if False else "mvn 1\n",
    ".db\n", ".db 1,\n", ".db 1,\nfoo = 2\n", ".db { nop }\n", ".dw (1+2)*3, -4\n", ".dl label & 0xFF\n", ".pointer a, b\n",
    ".ascii 'x'\n.text ''\n", ".incbin 'a.bin'\n.table 'b.tbl'", ".incbin 'a.bin'", ".include_ips 'p.ips', -0x200",
    ".scope s {\n}\n", ".scope s { nop\n }\n", "{ { } }\n", "{\n", "}\n", ".macro m() { }\nm()\n",
    ".macro m(a,b,c,d) {\n lda #a\n}\nm(1, 2+3, { nop\n }, foo)\n", "m({ lda #1\n }, { })\n", "m(1,)\n", "m(,1)\n", "m(1 2)\n",
    "{{foo}}\n", "{{ foo }}\n", "{{1}}\n", ".if 1 { nop\n }\n", ".if x { } else { }\n", ".if x { } .else { }\n",
    ".if x { }\nelse = 1\n", ".for i := 0, 4 {\n .db i\n}\n", ".for i = 0, 4 { }\n",
    ".map identifier=1 bank_range=0x00,0x3f addr_range=0x8000,0xffff mask=0x8000\n",
    ".map identifier=1,2\n", ".map writable=1,0\n", ".map mask=0x8000,1 writable=1 mirror_bank_range=0x80\n",
    ".map identifier=0b\n", ".map mask=0x\n", ".map mask=0o8\n", ".map mask=0o17\n", ".map mask=00\n", ".map mask=1 mask=2\n",
    ".map\n", ".map foo=1\n", ".map mask 1\n", ".map mask=\n", ".map mask=1,\n", ".map mask=x\n",
    ".struct s { }\n", ".struct s {\n; c\n}\n", ".struct s { byte a }\n", ".struct s {\n", ".struct {\n",
    "foo:\nfoo: bar:\n", "foo = 1\nfoo := 2\n", "foo\n", "foo +\n", "*= 0x8000\n@= 0x7e0000\n", "*=\n", "; only\n", "/* c */\n",
    ".else\n", ".istruct\n", ".include 'inc1.s'\n", ".include 'inc2.s'\nlda after\n", ".include 'missing.s'\n",
    ".include 'badscan.s'\n", ".include 'badparse.s'\n", ".include 'cyc.s'\n", ".include 'cyca.s'\n", ".include 'empty.s'\nnop\n",
    "{ .include 'blk.s'\n", ".include\n", "x = 1 == 2\n", "x = 1 != (2 > 3)\n", "x = -(-1)\n", "x = 1 -\n", "x = ()\n", "x = (1\n",
    "x = 1)\n", "lda a.b\n", "sc.sym = 1\n", "lda 1 ,x\n", "lda ( 1 , x )\n",
]

TYPED_LISTS = [  # token types the scanner never produces (TYPE, BOOLEAN), built directly
    [["KEYWORD", "struct"], ["IDENTIFIER", "s"], ["LBRACE", "{"], ["TYPE", "byte"], ["IDENTIFIER", "a"], ["COMMENT", "; c"],
     ["TYPE", "word"], ["IDENTIFIER", "b"], ["TYPE", "long"], ["IDENTIFIER", "a"], ["RBRACE", "}"], ["EOF", ""]],
    [["KEYWORD", "struct"], ["IDENTIFIER", "s"], ["LBRACE", "{"], ["TYPE", "byte"], ["RBRACE", "}"], ["EOF", ""]],
    [["KEYWORD", "struct"], ["IDENTIFIER", "s"], ["LBRACE", "{"], ["TYPE", "byte"], ["IDENTIFIER", "a"], ["EOF", ""]],
    [["KEYWORD", "struct"], ["IDENTIFIER", "s"], ["LBRACE", "{"], ["TYPE", "byte"], ["IDENTIFIER", "a"]],
    [["KEYWORD", "struct"], ["IDENTIFIER", "s"], ["LBRACE", "{"], ["IDENTIFIER", "a"], ["RBRACE", "}"], ["EOF", ""]],
    [["IDENTIFIER", "x"], ["EQUAL", "="], ["BOOLEAN", "True"], ["OPERATOR", "&"], ["BOOLEAN", "False"], ["EOF", ""]],
    [["OPCODE", "lda"], ["SHARP", "#"], ["BOOLEAN", "True"], ["EOF", ""]],
    [["OPCODE_NAKED", "nop"], ["ADDRESSING_MODE_INDEX", "x"], ["EOF", ""]],
    [["OPCODE", "lda"], ["SHARP", "#"], ["NUMBER", "1"], ["ADDRESSING_MODE_INDEX", "x"], ["EOF", ""]],
    [["OPCODE", "lda"], ["NUMBER", "1"], ["ADDRESSING_MODE_INDEX", ""], ["EOF", ""]],
    [["OPCODE", "lda"], ["LPAREN", "("], ["NUMBER", "1"], ["ADDRESSING_MODE_INDEX", "S"], ["RPAREN", ")"], ["ADDRESSING_MODE_INDEX", "Y"], ["EOF", ""]],
    [["OPCODE", "lda"], ["OPCODE_SIZE", "q"], ["NUMBER", "1"], ["EOF", ""]],
    [["OPCODE", "lda"], ["OPCODE_SIZE", "W"], ["NUMBER", "1"], ["EOF", ""]],
    [["KEYWORD", "map"], ["IDENTIFIER", "mask"], ["EQUAL", "="], ["NUMBER", "08"], ["EOF", ""]],
    [["KEYWORD", "map"], ["IDENTIFIER", "mask"], ["EQUAL", "="], ["NUMBER", "0b2"], ["EOF", ""]],
    [["KEYWORD", "map"], ["IDENTIFIER", "mask"], ["EQUAL", "="], ["NUMBER", "1_000"], ["COMMA", ","], ["NUMBER", "0x_ff"], ["EOF", ""]],
    [["KEYWORD", "map"], ["IDENTIFIER", "mask"], ["EQUAL", "="], ["NUMBER", "1__0"], ["EOF", ""]],
    [["KEYWORD", "map"], ["IDENTIFIER", "mask"], ["EQUAL", "="], ["NUMBER", "0_0"], ["EOF", ""]],
    [["KEYWORD", "map"], ["IDENTIFIER", "mask"], ["EQUAL", "="], ["NUMBER", "0XfF"], ["COMMA", ","], ["NUMBER", "0B11"], ["EOF", ""]],
    [["KEYWORD", "map"], ["IDENTIFIER", "mask"], ["EQUAL", "="], ["NUMBER", "1"], ["COMMA", ","], ["NUMBER", "09"], ["EOF", ""]],
    [["KEYWORD", "ascii"], ["QUOTED_STRING", "'"], ["EOF", ""]],
    [["KEYWORD", "ascii"], ["QUOTED_STRING", ""], ["EOF", ""]],
    [["LABEL", "a"]], [["LABEL", "a"], ["EOF", ""], ["LABEL", "b"]], [], [["EOF", ""]],
    [["LBRACE", "{"], ["RBRACE", "}"]], [["LBRACE", "{"], ["EOF", ""], ["RBRACE", "}"]],
    [["KEYWORD", "if"], ["NUMBER", "1"], ["LBRACE", "{"], ["RBRACE", "}"], ["KEYWORD", "else"], ["LBRACE", "{"], ["RBRACE", "}"]],
    [["KEYWORD", "if"], ["NUMBER", "1"], ["LBRACE", "{"], ["RBRACE", "}"], ["QUOTED_STRING", "else"], ["LBRACE", "{"], ["RBRACE", "}"], ["EOF", ""]],
]

POOLS = {
    "EOF": [""], "COMMENT": ["; c"], "LABEL": ["foo"], "IDENTIFIER": ["foo", "else", "mask", "identifier", "bank_range", "m"],
    "QUOTED_STRING": ["'abc'", "'inc1.s'", "''", "'missing.s'"], "OPERATOR": ["+", "-", "~", "*", "<<", "=="],
    "LPAREN": ["("], "RPAREN": [")"], "SHARP": ["#"], "RBRAKET": ["]"], "LBRAKET": ["["], "RBRACE": ["}"], "LBRACE": ["{"],
    "ADDRESSING_MODE_INDEX": ["x", "Y", "s", "y", "S", "X"], "OPCODE_SIZE": ["b", "W", "l", "w"],
    "OPCODE_NAKED": ["nop", "RTS"], "OPCODE": ["lda", "JMP"], "COMMA": [","], "KEYWORD": KEYWORDS,
    "NUMBER": ["1", "0x10", "0b101", "0o17", "0", "0b", "0o8", "08", "255"], "STAR_EQ": ["*="], "AT_EQ": ["@="],
    "EQUAL": ["="], "ASSIGN": [":="], "DOUBLE_LBRACE": ["{{"], "DOUBLE_RBRACE": ["}}"], "BOOLEAN": ["True"],
    "TYPE": ["byte", "word"],
}


def _rand_tok(rng):
    ty = rng.choice(sorted(POOLS))
    return [ty, rng.choice(POOLS[ty])]


def _harvest():
    """Program strings of the repository: samples and every string constant of tests/*.py that scans."""
    from a816.parse.errors import ScannerException
    texts = []
    for p in sorted((C.REPO / "tests").rglob("*.s")):
        texts.append(("sample:" + p.name, p.read_text()))
    seen = set()
    for p in sorted((C.REPO / "tests").glob("*.py")):
        try:
            tree = pyast.parse(p.read_text())
        except SyntaxError:
            continue
        for n in pyast.walk(tree):
            if isinstance(n, pyast.Constant) and isinstance(n.value, str) and 1 < len(n.value) < 3000 and n.value not in seen:
                seen.add(n.value)
                texts.append(("tests:" + p.name, n.value))
    out = []
    with _quiet():
        for src, t in texts:
            try:
                toks = _scan("main.s", t)
            except ScannerException:
                continue
            except Exception:
                continue
            if 2 <= len(toks) <= 400:
                out.append((src, t, len(toks)))
    return out


def _needs_files(text):
    return INC_FILES if ".include" in text else None


def cases(ctx):
    rng, tier = ctx["rng"], ctx["tier"]
    thorough = tier == "thorough"
    out = []

    def prog(text, src, mut=None):
        c = {"k": "prog", "text": text, "src": src}
        if mut:
            c["mut"] = mut
        f = _needs_files(text)
        if f:
            c["files"] = f
        out.append(c)

    def ntoks(text, expr=False):
        from a816.parse.errors import ScannerException
        try:
            with _quiet():
                return len(_scan("main.s", text, expr))
        except ScannerException:
            return None

    # (a) repository programs
    harvested = _harvest()
    for src, t, n in harvested:
        prog(t, src)
    # (b) fixed + generated programs
    g = Gen(rng)
    bases = []
    for t in FIXED_PROGRAMS:
        if ntoks(t) is not None:
            prog(t, "fixed")
            bases.append(t)
    ngen = 220 if not thorough else 1500
    tries = 0
    while len(bases) < len(FIXED_PROGRAMS) + ngen and tries < 20 * ngen:
        tries += 1
        t = g.program(rng.choice([1, 2, 3, 6]))
        n = ntoks(t)
        if n is None or n > 120:
            continue
        prog(t, "gen")
        bases.append(t)
    # instruction matrix: every shape x suffix/case at least once
    for shape in Gen.SHAPES:
        for suf in ["", ".b", ".W", ".l"]:
            for up in (False, True):
                idx = {k: (k.upper() if up else k) for k in "xys"}
                t = f"{'LDA' if up else 'lda'}{suf} {shape.format(e=rng.choice(['0x10', 'foo', '1+2', '-1']), **idx)}\n"
                if ntoks(t) is not None:
                    prog(t, "shape")
    # (c)+(d) token-level mutations of the bases and of a few harvested programs
    mut_bases = [(t, "mut") for t in bases] + [(t, "mut-repo") for _, t, n in harvested if n <= 60]
    per = 10 if not thorough else 40
    for t, src in mut_bases:
        n = ntoks(t)
        allm = [["del", i] for i in range(n)] + [["dup", i] for i in range(n)] + [["swap", i] for i in range(n - 1)] + \
               [["trunc", k] for k in range(n)]
        allm += [["sub", rng.randrange(n)] + _rand_tok(rng) for _ in range(max(2, n // 3))]
        if per is not None and len(allm) > per:
            allm = rng.sample(allm, per)
        for m in allm:
            prog(t, src + ":" + m[0], m)
    # token soups and hand-built lists
    for tl in TYPED_LISTS:
        out.append({"k": "soup", "toks": tl, "src": "typed", "files": INC_FILES})
    for a in sorted(POOLS):                      # every single token, every pair of token types
        out.append({"k": "soup", "toks": [[a, POOLS[a][0]]], "src": "soup1"})
        for b in sorted(POOLS):
            out.append({"k": "soup", "toks": [[a, rng.choice(POOLS[a])], [b, rng.choice(POOLS[b])]], "src": "soup2"})
    nsoup = 700 if not thorough else 20000
    for _ in range(nsoup):
        n = rng.randint(3, 6)
        tl = [_rand_tok(rng) for _ in range(n)]
        if rng.random() < 0.5:
            tl.append(["EOF", ""])
        c = {"k": "soup", "toks": tl, "src": "soup"}
        if any(v.endswith(".s'") for _, v in tl):
            c["files"] = INC_FILES
        out.append(c)
    # parse_expression_ep
    nexpr = 150 if not thorough else 2000
    for _ in range(nexpr):
        t = g.expr("op")
        n = ntoks(t, expr=True)
        if n is None:
            continue
        out.append({"k": "expr", "text": t, "src": "expr"})
        for m in rng.sample([["del", i] for i in range(n)] + [["dup", i] for i in range(n)] + [["trunc", k] for k in range(n)], min(3, 3 * n)):
            out.append({"k": "expr", "text": t, "src": "expr:" + m[0], "mut": m})
    return out
