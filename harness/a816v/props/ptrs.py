"""PTRS — model tie of the legacy script-dump helpers (Model/Pointers.v <-> script/pointers.py: Pointer,
Script.read_fixed_text_list / read_pointers / read_pointers_content / append_pointers, write_pointers_value_as_binary,
write_pointers_addresses_as_binary, recode_pointer_values; the XML reader / writer are not modelled).

A case is the argument list of ONE call: byte files as lists of bytes plus an initial position, pointer tables as
(id, address, value) triples.  `observe` builds fresh `Pointer` objects (never the same object twice: several functions
update their arguments in place), `io.BytesIO` files for everything that is read and real files in a private directory
under /verif/work for the two writers, calls the function from /repo and records the exception kind or the resulting
table, the file position afterwards, and what is in the output files / in the objects after the call (also after a
failing call).

Correspondence bit: the model function on the same arguments, compared exactly (Oracle/Ptrso.v `corr`).

Oracle bit (`spec_ok`, never calls a Model/Pointers.v function): facts recomputed from scratch on the implementation's
own outputs — values read by read_pointers_content are the consecutive pieces of rom[lowest address : end], each
starting at its own address (a single pointer: at the initial file position, the missing seek); the address table is the
LoROM encoding of base + running length and, read back through the inverse formula, points at the values; append =
table 1 by id, then table 2 by id shifted by the largest id of table 1; recoding a value built from table-1 codes yields
the table-2 codes of the same characters (the generator knows the characters); error classes are predicted as well.
"""
from __future__ import annotations

import contextlib
import io
import os
import shutil
import tempfile
import warnings

from .. import common as C
from ..obs import observe_call, obs_term

ID = "PTRS"
# script/pointers.py is not named by any property's statement (C20 covers the address formulas it uses): a break of this
# tie - also one that its oracle pins down, quirks included - is reported under C20 as drift of modelled code
# (VIOLATION ... no-failing-input-found), never as a failing input of C20
TIE_DRIFT_ONLY = True
HEADER = "From A816 Require Import Oracle.Ptrso."
CASE_TYPE = "case"
CHECK = "check"
MODEL_VIEW = "model_view"
PROOF_HEADER = "From A816 Require Import Proofs.PointersProofs."
THEOREMS = ["sort_by_perm", "sort_by_sorted", "sort_by_stable", "sort_by_id",
            "read_pointers_content_reads", "read_pointers_content_partition", "read_pointers_content_single",
            "read_pointers_content_single_positioned", "read_pointers_content_single_quirk",
            "read_pointers_content_boundaries", "slice_app", "slice_length",
            "write_values_spec", "write_addresses_lorom", "write_addresses_order", "write_files_ok",
            "addresses_roundtrip", "addresses_roundtrip_lorom", "addresses_roundtrip_base_relative", "dump_roundtrip",
            "append_pointers_spec", "append_pointers_empty", "append_pointers_collision",
            "recode_is_map", "recode_ok_iff", "recode_state_ok", "recode_roundtrip_table", "recode_there_and_back",
            "recode_same_table", "read_fixed_text_list_spec"]
RULE = ("single calls of the functions of script/pointers.py on generated arguments: byte files of 0-100 bytes with an "
        "arbitrary initial position; pointer tables of 0-8 pointers with random ids (duplicates, negatives), addresses "
        "(duplicates, unsorted, beyond the file, negative, missing) and values of 0-4 bytes (or missing); "
        "read_fixed_text_list / read_pointers with address -2..len+3, count -1..8, chunk length -1..4 and the formulas "
        "base_relative_16bits_pointer_formula(base) and the LoROM inverse; read_pointers_content with the end address at, "
        "after and before the last address and beyond the file; both writers with long_low_rom_pointer(base) for bases "
        "around every boundary (0, bank edges, end of LoROM, 0x7FFFFF/0x800000, negative) and the written table read back; "
        "append_pointers; recode_pointer_values between two generated single-character tables, on values built from table "
        "codes, on random bytes and with missing values; non-trivial = the call returned and had something to do; "
        "distinct by arguments")
PROVED_NOTE = ("proved on the model for all inputs: sorted() as modelled is a stable sort; read_pointers_content on two "
               "pointers or more returns the address-sorted table whose values are the consecutive slices of "
               "rom[a_first:end] (each starting at its address, concatenating to that slice) whatever the file position, "
               "while for ONE pointer the value is read at the file position (no seek); the address table written with "
               "long_low_rom_pointer(base) holds the LoROM address of base + total length of the earlier values, reads "
               "back through the inverse formula to those offsets, and dumping a ROM made of the values file at `base` "
               "returns the values; append_pointers = table 1 by id ++ table 2 by id shifted by the LARGEST id of table 1; "
               "recode_pointer_values = per-pointer to_bytes(to_text(.)) with the C18 round trips as corollaries. "
               "Correspondence-only: that script/pointers.py computes what Model/Pointers.v computes (io.BytesIO "
               "read/seek semantics, in-place updates, files left behind by a failing writer, as modelled).")
EXHAUSTIVE = {"quick": False, "thorough": False}
CASE_TIMEOUT = 20
SHARD = 150

ALPHABET = "abcdefghijklmnopqrstuvwxyz0123456789 .,!?"


# ----------------------------------------------------------------------------- generators

def _rom(rng, lens=(0, 1, 2, 3, 5, 8, 16, 40, 100)):
    n = rng.choice(lens)
    return [rng.randrange(256) for _ in range(n)]


def _pos(rng, n):
    return rng.choice([0, 0, 0, rng.randint(0, max(n, 1)), n, n + rng.randint(1, 5)])


def _value(rng):
    return [rng.randrange(256) for _ in range(rng.choice([0, 1, 1, 2, 2, 3, 4]))]


def _ids(rng, n):
    mode = rng.random()
    if mode < 0.35:
        ids = list(range(n))
    elif mode < 0.55:
        ids = list(range(1, n + 1))
    elif mode < 0.8:
        ids = [rng.randint(0, 6) for _ in range(n)]              # duplicates
    else:
        ids = [rng.randint(-5, 40) for _ in range(n)]
    if rng.random() < 0.7:
        rng.shuffle(ids)
    return ids


def _table(rng, n, rom_len=None, addr_none=0.0, val_none=0.0, with_values=True, neg=0.0):
    out = []
    for i in _ids(rng, n):
        addr = None
        if rom_len is not None:
            r = rng.random()
            if out and r < 0.15:
                addr = rng.choice(out)["addr"]                   # duplicate address
            elif r < 0.85:
                addr = rng.randint(0, max(rom_len, 0))
            else:
                addr = rom_len + rng.randint(0, 6)               # at / beyond the end of the file
            if rng.random() < neg:
                addr = -rng.randint(1, 4)
            if rng.random() < addr_none:
                addr = None
        val = _value(rng) if with_values else None
        if val is not None and rng.random() < val_none:
            val = None
        out.append({"id": i, "addr": addr, "val": val})
    return out


def _count(rng):
    return rng.choice([0, 1, 1, 2, 2, 3, 4, 5, 8])


def _content_case(rng, kind):
    rom = _rom(rng)
    n = _count(rng)
    neg = 0.04 if kind == "content-bad" else 0.0
    none = 0.06 if kind == "content-bad" else 0.0
    ps = _table(rng, n, rom_len=len(rom), addr_none=none, with_values=rng.random() < 0.2, neg=neg)
    addrs = [p["addr"] for p in ps if p["addr"] is not None]
    top = max(addrs) if addrs else 0
    r = rng.random()
    if r < 0.45:
        end = rng.randint(top, max(top, len(rom)))
    elif r < 0.6:
        end = top
    elif r < 0.75:
        end = len(rom)
    elif r < 0.88:
        end = max(top, len(rom)) + rng.randint(1, 5)
    else:
        end = top - rng.randint(1, 4)                            # before the last address: read(-k) = to EOF
    return {"kind": kind, "rom": rom, "pos0": _pos(rng, len(rom)), "ps": ps, "end": end}


BASES = [0, 0, 0, 1, 0x7FFF, 0x8000, 0x10000, 0x12345, 0x1FFFF, 0x37FFF0, 0x37FFFF, 0x380000, 0x7FFFF0, 0x7FFFFC,
         0x7FFFFF, 0x800000, 0x1000000, -1, -3, -0x8000, -0x8001]


def _write_case(rng):
    n = _count(rng)
    ps = _table(rng, n, val_none=rng.choice([0, 0, 0, 0.15]))
    base = rng.choice(BASES) if rng.random() < 0.7 else rng.randrange(0x400000)
    return {"kind": "write", "ps": ps, "base": base}


def _two_tables(rng):
    """two single-character tables over a common alphabet; fixed-length (hence prefix-free), distinct codes"""
    chars = rng.sample(ALPHABET, rng.randint(1, 12))
    w2 = rng.choice([1, 2])
    c1 = rng.sample(range(256), len(chars))
    c2 = rng.sample(range(256 ** w2), len(chars))
    t1 = [[ch, [c], None] for ch, c in zip(chars, c1)]
    t2 = [[ch, list(c.to_bytes(w2, "big")), None] for ch, c in zip(chars, c2)]
    if rng.random() < 0.5:
        rng.shuffle(t2)
    return chars, t1, t2


def _recode_case(rng):
    chars, t1, t2 = _two_tables(rng)
    if rng.random() < 0.25:
        t2 = [list(e) for e in t1]                               # same table: identity
    code1 = {e[0]: e[1] for e in t1}
    code2 = {e[0]: e[1] for e in t2}
    n = _count(rng)
    mode = rng.random()
    ps, expect = [], []
    for i in _ids(rng, n):
        s = [rng.choice(chars) for _ in range(rng.randint(0, 5))]
        ps.append({"id": i, "addr": rng.choice([None, rng.randint(0, 99)]), "val": [b for ch in s for b in code1[ch]]})
        expect.append([b for ch in s for b in code2[ch]])
    kind = "recode-codes"
    if mode > 0.7:                                               # no prediction: random bytes / missing values
        kind, expect = "recode-wild", None
        for p in ps:
            r = rng.random()
            if r < 0.5:
                p["val"] = _value(rng)
            elif r < 0.62:
                p["val"] = None
    return {"kind": kind, "ps": ps, "t1": t1, "t2": t2, "expect": expect}


def _P(i, a=None, v=None):
    return {"id": i, "addr": a, "val": v}


def _fixed_cases():
    rom = list(b"ABCDEFGHIJ")
    out = []
    # the missing seek: one pointer, different file positions
    for pos0 in (0, 2, 5, 9, 10, 14):
        out.append({"kind": "content", "rom": rom, "pos0": pos0, "ps": [_P(0, 2)], "end": 4})
    out.append({"kind": "content", "rom": rom, "pos0": 3, "ps": [_P(0, 6)], "end": 4})       # end before the address
    out.append({"kind": "content", "rom": rom, "pos0": 3, "ps": [_P(0, -1)], "end": 4})      # negative, but never sought
    out.append({"kind": "content-bad", "rom": rom, "pos0": 0, "ps": [], "end": 4})
    out.append({"kind": "content-bad", "rom": rom, "pos0": 0, "ps": [_P(0, 1), _P(1, None)], "end": 4})
    out.append({"kind": "content-bad", "rom": rom, "pos0": 0, "ps": [_P(0, None)], "end": 4})
    out.append({"kind": "content-bad", "rom": rom, "pos0": 0, "ps": [_P(0, -1), _P(1, 2)], "end": 4})
    out.append({"kind": "content", "rom": rom, "pos0": 7, "ps": [_P(0, 3), _P(1, 1)], "end": 2})
    out.append({"kind": "content", "rom": rom, "pos0": 7, "ps": [_P(5, 6), _P(1, 0), _P(3, 3)], "end": 10})
    out.append({"kind": "content", "rom": rom, "pos0": 7, "ps": [_P(5, 6), _P(1, 0), _P(3, 3)], "end": 99})
    out.append({"kind": "content", "rom": rom, "pos0": 0, "ps": [_P(0, 4), _P(1, 4), _P(2, 4)], "end": 6})   # equal addresses
    out.append({"kind": "content", "rom": rom, "pos0": 0, "ps": [_P(0, 8), _P(1, 12), _P(2, 20)], "end": 30})  # beyond the file
    out.append({"kind": "content", "rom": [], "pos0": 0, "ps": [_P(0, 0), _P(1, 0)], "end": 0})
    # list readers
    for address, count, ln in ((0, 3, 2), (2, 4, 3), (8, 3, 2), (10, 2, 2), (12, 1, 1), (0, 0, 2), (0, -1, 2), (-1, 1, 2),
                               (0, 3, 0), (0, 3, -1), (9, 1, 2), (0, 2, 1)):
        out.append({"kind": "fixed", "content": rom, "pos0": 4, "address": address, "count": count, "len": ln})
        out.append({"kind": "read", "content": rom, "pos0": 4, "address": address, "count": count, "len": ln,
                    "formula": ["baserel", 0x8000]})
        out.append({"kind": "read", "content": rom, "pos0": 4, "address": address, "count": count, "len": ln,
                    "formula": ["loinv"]})
    # append
    out.append({"kind": "append", "t1": [], "t2": [_P(0)]})
    out.append({"kind": "append", "t1": [], "t2": []})
    out.append({"kind": "append", "t1": [_P(0), _P(1), _P(2)], "t2": [_P(0), _P(1)]})         # ids collide on 2
    out.append({"kind": "append", "t1": [_P(2, 7, [1]), _P(0), _P(1)], "t2": [_P(2), _P(1, 3, [9, 9])]})
    out.append({"kind": "append", "t1": [_P(3)], "t2": []})
    out.append({"kind": "append", "t1": [_P(-4), _P(-2)], "t2": [_P(-1), _P(5)]})
    # writers
    for base in (0, 0x8000, 0x7FFFFF, 0x800000, -1, -0x8000):
        out.append({"kind": "write", "ps": [_P(1, None, None), _P(0, None, [1, 2])], "base": base})
        out.append({"kind": "write", "ps": [_P(1, None, [3]), _P(0, None, [1, 2]), _P(1, None, [])], "base": base})
        out.append({"kind": "write", "ps": [], "base": base})
    return out


def cases(ctx):
    rng, tier = ctx["rng"], ctx["tier"]
    scale = 1 if tier == "quick" else 12
    out = _fixed_cases()
    for _ in range(150 * scale):
        out.append(_content_case(rng, "content"))
    for _ in range(40 * scale):
        out.append(_content_case(rng, "content-bad"))
    for _ in range(50 * scale):
        content = _rom(rng)
        out.append({"kind": "fixed", "content": content, "pos0": _pos(rng, len(content)),
                    "address": rng.randint(-2, len(content) + 3) if rng.random() < 0.3 else rng.randint(0, len(content)),
                    "count": rng.randint(-1, 8), "len": rng.choice([-1, 0, 1, 2, 2, 3, 3, 4])})
    for _ in range(70 * scale):
        content = _rom(rng)
        f = ["baserel", rng.choice([0, 0x8000, 0x10000, -5, rng.randrange(0x400000)])] if rng.random() < 0.5 else ["loinv"]
        ln = rng.choice([2, 2, 3, 3, 3, 4, 1, 0, -1])
        out.append({"kind": "read", "content": content, "pos0": _pos(rng, len(content)),
                    "address": rng.randint(-2, len(content) + 3) if rng.random() < 0.2 else rng.randint(0, len(content)),
                    "count": rng.randint(-1, 8), "len": ln, "formula": f})
    for _ in range(50 * scale):
        out.append({"kind": "append", "t1": _table(rng, _count(rng), rom_len=30 if rng.random() < 0.5 else None),
                    "t2": _table(rng, _count(rng), rom_len=30 if rng.random() < 0.5 else None)})
    for _ in range(90 * scale):
        out.append(_write_case(rng))
    for _ in range(50 * scale):
        out.append(_recode_case(rng))
    return out


# ----------------------------------------------------------------------------- implementation driver

def _objs(table):
    from script.pointers import Pointer
    out = []
    for s in table:
        p = Pointer(s["id"], s["addr"])
        p.value = None if s["val"] is None else bytes(s["val"])
        out.append(p)
    return out


def _dump(ps):
    return [[p.id, p.address, None if p.value is None else list(p.value)] for p in ps]


def _lo_inverse(v):
    from a816.cpu.cpu_65c816 import snes_to_rom
    return snes_to_rom(int.from_bytes(v, "little"))


def _write_tbl(d, name, entries):
    p = os.path.join(d, name)
    with open(p, "w", encoding="utf-8", newline="\n") as f:
        for text, code, _ in entries:
            f.write("".join(f"{b:02x}" for b in code) + "=" + text + "\n")
    return p


def observe(case):
    from script import Table, formulas
    from script import pointers as P
    kind = case["kind"]
    with warnings.catch_warnings(), contextlib.redirect_stdout(io.StringIO()):
        warnings.simplefilter("ignore")
        if kind in ("content", "content-bad"):
            rom = io.BytesIO(bytes(case["rom"]))
            rom.seek(case["pos0"])
            ps = _objs(case["ps"])
            r = observe_call(lambda: P.Script(rom).read_pointers_content(ps, case["end"]))
            if "ok" in r:
                r = {"ok": [_dump(r["ok"]), rom.tell()]}
            return r
        if kind in ("fixed", "read"):
            f = io.BytesIO(bytes(case["content"]))
            f.seek(case["pos0"])
            s = P.Script(io.BytesIO(b""))
            if kind == "fixed":
                r = observe_call(lambda: s.read_fixed_text_list(f, case["address"], case["count"], case["len"]))
            else:
                fm = case["formula"]
                formula = formulas.base_relative_16bits_pointer_formula(fm[1]) if fm[0] == "baserel" else _lo_inverse
                r = observe_call(lambda: s.read_pointers(f, case["address"], case["count"], case["len"], formula))
            if "ok" in r:
                r = {"ok": [_dump(r["ok"]), f.tell()]}
            return r
        if kind == "append":
            t1, t2 = _objs(case["t1"]), _objs(case["t2"])
            r = observe_call(lambda: P.Script(io.BytesIO(b"")).append_pointers(t1, t2))
            if "ok" in r:
                r = {"ok": [_dump(r["ok"]), [p.id for p in t2]]}
            return r
        C.WORK.mkdir(exist_ok=True)
        d = tempfile.mkdtemp(prefix="ptrs-", dir=str(C.WORK))
        try:
            if kind == "write":
                vp, ap = os.path.join(d, "values.bin"), os.path.join(d, "addresses.bin")
                rv = observe_call(lambda: P.write_pointers_value_as_binary(_objs(case["ps"]), vp))
                ra = observe_call(lambda: P.write_pointers_addresses_as_binary(
                    _objs(case["ps"]), formulas.long_low_rom_pointer(case["base"]), ap))
                with open(vp, "rb") as fd:
                    vfile = list(fd.read())
                with open(ap, "rb") as fd:
                    afile = list(fd.read())
                back = None
                if "ok" in ra:
                    f = io.BytesIO(bytes(afile))
                    back = observe_call(lambda: P.Script(io.BytesIO(b"")).read_pointers(f, 0, len(case["ps"]), 3, _lo_inverse))
                    if "ok" in back:
                        back = {"ok": [_dump(back["ok"]), f.tell()]}
                return {"ok": {"v": rv, "vfile": vfile, "a": ra, "afile": afile, "back": back}}
            if kind in ("recode-codes", "recode-wild"):
                t1 = Table(_write_tbl(d, "t1.tbl", case["t1"]))
                t2 = Table(_write_tbl(d, "t2.tbl", case["t2"]))
                ps = _objs(case["ps"])
                r = observe_call(lambda: P.recode_pointer_values(ps, t1, t2))
                return {"ok": {"r": r, "after": _dump(ps)}}
        finally:
            shutil.rmtree(d, ignore_errors=True)
    raise ValueError(f"unknown case kind {kind}")


# ----------------------------------------------------------------------------- Coq terms

def _pobs(p) -> str:
    return f"({C.z(p[0])},{C.copt(p[1], C.z)},{C.copt(p[2], C.zlist)})"


def _spec(s) -> str:
    return _pobs([s["id"], s["addr"], s["val"]])


def _tblpos(o) -> str:
    return C.cpair(C.clist(o[0], _pobs), C.z(o[1]))


def _unit(ob) -> str:
    return obs_term(ob, lambda _: "tt")


def _entry(e) -> str:
    return f"({C.cstr(e[0])},{C.zlist(e[1])},{C.copt(e[2], C.z)})"


def coq_term(case, ob):
    kind = case["kind"]
    if not isinstance(ob, dict):
        ob = {"driver_error": "no observation"}
    if kind in ("content", "content-bad"):
        return (f"CContent {C.zlist(case['rom'])} {C.z(case['pos0'])} {C.clist(case['ps'], _spec)} {C.z(case['end'])} "
                f"{obs_term(ob, _tblpos)}")
    if kind == "fixed":
        return (f"CFixed {C.zlist(case['content'])} {C.z(case['pos0'])} {C.z(case['address'])} {C.z(case['count'])} "
                f"{C.z(case['len'])} {obs_term(ob, _tblpos)}")
    if kind == "read":
        fm = case["formula"]
        f = f"(FBaseRel {C.z(fm[1])})" if fm[0] == "baserel" else "FLoInv"
        return (f"CRead {C.zlist(case['content'])} {C.z(case['pos0'])} {C.z(case['address'])} {C.z(case['count'])} "
                f"{C.z(case['len'])} {f} {obs_term(ob, _tblpos)}")
    if kind == "append":
        return (f"CAppend {C.clist(case['t1'], _spec)} {C.clist(case['t2'], _spec)} "
                f"{obs_term(ob, lambda o: C.cpair(C.clist(o[0], _pobs), C.zlist(o[1])))}")
    if kind == "write":
        if "ok" not in ob:                                       # the driver failed: corr must be false
            return f"CWrite {C.clist(case['ps'], _spec)} {C.z(case['base'])} OTimeout [] OTimeout [] None"
        o = ob["ok"]
        back = "None" if o["back"] is None else f"(Some {obs_term(o['back'], _tblpos)})"
        return (f"CWrite {C.clist(case['ps'], _spec)} {C.z(case['base'])} {_unit(o['v'])} {C.zlist(o['vfile'])} "
                f"{_unit(o['a'])} {C.zlist(o['afile'])} {back}")
    if kind in ("recode-codes", "recode-wild"):
        head = (f"CRecode {C.clist(case['ps'], _spec)} {C.clist(case['t1'], _entry)} {C.clist(case['t2'], _entry)} "
                f"{C.copt(case['expect'], lambda vs: C.clist(vs, C.zlist))}")
        if "ok" not in ob:
            return f"{head} OTimeout []"
        o = ob["ok"]
        return f"{head} {_unit(o['r'])} {C.clist(o['after'], _pobs)}"
    raise ValueError(kind)


def weight(case) -> int:
    return 1


def _outcome(ob):
    if not isinstance(ob, dict):
        return "driver?"
    if "ok" in ob:
        return "ok"
    return str(ob.get("err", "timeout" if ob.get("timeout") else "driver?"))


def nontrivial_key(case, ob):
    if not isinstance(ob, dict) or "ok" not in ob:
        return None
    kind = case["kind"]
    if kind in ("content", "content-bad"):
        if not case["ps"]:
            return None
    elif kind in ("fixed", "read"):
        if case["count"] <= 0:
            return None
    elif kind == "append":
        if not case["t2"]:
            return None
    elif kind == "write":
        if not case["ps"] or "ok" not in ob["ok"]["a"] or "ok" not in ob["ok"]["v"]:
            return None
    else:
        if not case["ps"] or "ok" not in ob["ok"]["r"]:
            return None
    return C.short_hash(case)


def tags(case, ob):
    kind = case["kind"]
    t = []
    if kind == "write" and isinstance(ob, dict) and "ok" in ob:
        o = ob["ok"]
        t.append(f"write-values:{_outcome(o['v'])}")
        t.append(f"write-addresses:{_outcome(o['a'])}")
        if o["back"] is not None:
            t.append(f"read-back:{_outcome(o['back'])}")
        if any(p["val"] is None for p in case["ps"]):
            t.append("feature:missing-value")
        if len({p["id"] for p in case["ps"]}) < len(case["ps"]):
            t.append("feature:duplicate-id")
    elif kind.startswith("recode") and isinstance(ob, dict) and "ok" in ob:
        t.append(f"{kind}:{_outcome(ob['ok']['r'])}")
        if case["t1"] == case["t2"]:
            t.append("feature:same-table")
    else:
        t.append(f"{kind}:{_outcome(ob)}")
    if kind in ("content", "content-bad"):
        ps = case["ps"]
        addrs = [p["addr"] for p in ps if p["addr"] is not None]
        if len(ps) == 1:
            t.append("feature:single-pointer(no seek)")
            if addrs and case["pos0"] != addrs[0]:
                t.append("feature:single-pointer-not-positioned")
        if len(set(addrs)) < len(addrs):
            t.append("feature:duplicate-address")
        if addrs != sorted(addrs):
            t.append("feature:unsorted")
        if addrs and case["end"] < max(addrs):
            t.append("feature:end-before-last-address")
        if addrs and max(addrs + [case["end"]]) > len(case["rom"]):
            t.append("feature:beyond-end-of-file")
    if kind in ("fixed", "read"):
        if case["len"] < 0:
            t.append("feature:negative-length")
        if case["address"] + max(case["count"], 0) * max(case["len"], 0) > len(case["content"]):
            t.append("feature:short-read")
    if kind == "append":
        ids1, ids2 = [p["id"] for p in case["t1"]], [p["id"] for p in case["t2"]]
        if ids1 and ids2 and min(ids2) <= 0:
            t.append("feature:id-collision-or-disorder")
    return t
