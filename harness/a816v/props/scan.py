"""SCAN — model tie of the scanner (Model/Scanner.v <-> a816/parse/scanner.py + scanner_states.py).

Correspondence bit: the real `Scanner(lex_initial).scan("f.s", text)` (and `Scanner(lex_expression)
.scan("memory", text)`) against the Gallina model: full token stream (type, value, line, column, file),
final `scanner.file.lines`; for a ScannerException: str(e), position (line, column), the quoted line
`position.get_line()`, the tokens appended so far and `file.lines` after the handler ran.  A watchdog
timeout (CASE_TIMEOUT) or any other exception makes both bits false, the input is the replay.

Oracle bit (independent of the model, Oracle/Scano.v `spec_ok`): evaluated on the implementation's output and
the raw text only:  for every non-COMMENT token, with `start` = the value of `Scanner.start` observed at `emit`
(a subclass wrapper in this file, /repo untouched):  line = number of newlines in text[0:start),  column = start -
(index after the last newline before start),  value = text[start:start+len(value)], no newline in value;  EOF
token exactly once and last;  `file.lines == text.split("\\n")`.  For a ScannerException: the reported line exists,
the column lies inside it, the quoted line is that line's text (a prefix of it when the text contains NUL, where the
handler stops), and the character at (line, column) is what the message says (the rest of the input for "Invalid
Input", a quote for "Unterminated String", "/*" with no "*/" after it for "Unterminated Comment", the character after
a "." that is not a size letter, a non-index character, an unknown keyword's text after a ".").
"""
from __future__ import annotations

import ast as pyast
import itertools
from pathlib import Path

from .. import common as C

ID = "SCAN"
HEADER = "From A816 Require Import Oracle.Scano.\nRequire Import Run.GenLexicon."
CASE_TYPE = "case"
_LX = "(mk_lexicon Run.GenLexicon.mnemonics Run.GenLexicon.mnemonics_without_operand Run.GenLexicon.keywords)"
CHECK = f"check {_LX}"
MODEL_VIEW = f"model_view {_LX}"
PROOF_HEADER = "From A816 Require Import Proofs.ScannerProofs."
THEOREMS = ["scan_fuel_sufficient", "scan_expression_fuel_sufficient", "scan_res_fuel_sufficient", "scan_never_stuck",
            "accept_run_negated_without_nul_spins", "scan_inv", "token_pos_correct", "scan_lines_correct",
            "lex_error_pos_correct", "scan_expression_pos_correct"]


def instantiate(gen_q):
    """Per-run: the side condition of the position theorems holds for the live opcode table."""
    text = (
        "Require Import Run.GenLexicon.\n"
        f"Definition live_lexicon := {_LX}.\n"
        "Lemma live_lexicon_ok : lexicon_ok live_lexicon = true.\n"
        "Proof. vm_compute. reflexivity. Qed.\n"
        "Definition token_pos_correct_live file s toks lines := token_pos_correct live_lexicon file s toks lines live_lexicon_ok.\n"
        "Definition scan_lines_correct_live file s toks lines := scan_lines_correct live_lexicon file s toks lines live_lexicon_ok.\n"
        "Definition lex_error_pos_correct_live file s e := lex_error_pos_correct live_lexicon file s e live_lexicon_ok.\n"
    )
    return text, ["token_pos_correct_live", "scan_lines_correct_live", "lex_error_pos_correct_live"]


CASE_TIMEOUT = 2
SHARD = 250
RULE = ("Scanner(lex_initial).scan / Scanner(lex_expression).scan on: all fragment sequences up to length 2 (quick) / 3 "
        "(thorough) over a 44-fragment alphabet joined with and without spaces; the repo's sample sources and the program "
        "texts harvested from tests/*.py; generated statements/programs and every single-character deletion / truncation / "
        "duplication of them; a malformed stream (unterminated strings/comments at every position, bad suffix, bad index, "
        "unknown keyword, invalid characters, NUL, CRLF, no trailing newline); expression texts. Distinct by (entry, text).")
PROVED_NOTE = ("proved on the model: fuel sufficiency of both drivers (no OutOfFuel with fuel |s|+2), backup never under-runs, "
               "the line-tracking invariant, token and error positions (see Proofs/ScannerProofs.v for _partial names). "
               "Correspondence-only: that scanner.py/scanner_states.py compute what Model/Scanner.v computes; "
               "str.lower() is modelled as ASCII lower-casing (U+212A, U+0130 excluded from the generator).")
EXHAUSTIVE = {"quick": False, "thorough": False}

FILE_INITIAL = "f.s"
FILE_EXPR = "memory"

ALPHABET = ["lda", "nop", ".db", ".macro", ".if", ".for", ".text", "(", ")", "{", "}", "{{", "}}", "'", "'a'", "/*", "*/",
            ";", "\n", " ", "\t", ",", "#", "0x", "0b", "1", "a", "a:", "=", ":=", "*=", "@=", ".", "x", "+", "-", "~", "<<",
            "[", "]", "\\", "\u00e9", ".b", "lda.w"]

# characters whose str.lower() lands in ASCII although they are not ASCII: outside the model (documented gap)
LOWER_GAP = {"\u212a", "\u0130"}


# ----------------------------------------------------------------------------- generators

def _fragment_sequences(max_len):
    out = []
    for n in range(0, max_len + 1):
        for seq in itertools.product(ALPHABET, repeat=n):
            out.append("".join(seq))
            if n >= 2:
                out.append(" ".join(seq))
    return out


def _harvest_repo_texts():
    texts = []
    tests = C.REPO / "tests"
    for p in sorted(tests.rglob("*.s")) + sorted(tests.rglob("*.i")):
        try:
            texts.append(p.read_text())
        except Exception:
            pass
    for p in sorted(tests.glob("*.py")):
        try:
            tree = pyast.parse(p.read_text())
        except Exception:
            continue
        for node in pyast.walk(tree):
            if isinstance(node, pyast.Constant) and isinstance(node.value, str):
                v = node.value
                if 2 <= len(v) <= 4000 and not (LOWER_GAP & set(v)):
                    texts.append(v)
    seen, out = set(), []
    for t in texts:
        if t not in seen:
            seen.add(t)
            out.append(t)
    return out


MNEMS = ["lda", "sta", "ldx", "ldy", "adc", "sbc", "cmp", "and", "ora", "eor", "jmp", "jsr", "bne", "beq", "bra", "inc",
         "dec", "asl", "lsr", "rol", "ror", "bit", "cpx", "cpy", "stz", "pea", "pei", "per", "rep", "sep", "mvn", "LDA", "Sta"]
NAKED = ["nop", "rts", "rtl", "rti", "php", "plp", "pha", "pla", "phx", "plx", "tax", "txa", "clc", "sec", "sei", "cli",
         "xba", "xce", "inx", "dey", "phk", "plb", "NOP", "Rts", "brk", "wai", "stp"]
IDENTS = ["label", "loop", "_x", "foo_bar", "a1", "v", "my.sub", "scope.label", "Z9", "value", "xx", "s", "y", "table"]


def _number(rng):
    k = rng.random()
    if k < 0.35:
        return "0x" + "".join(rng.choice("0123456789abcdefABCDEF") for _ in range(rng.choice([1, 2, 4, 6])))
    if k < 0.45:
        return "0b" + "".join(rng.choice("01") for _ in range(rng.randint(1, 8)))
    if k < 0.5:
        return "0o" + "".join(rng.choice("012345678") for _ in range(rng.randint(1, 4)))
    if k < 0.6:
        return rng.choice(["0", "00", "09", "0", "7", "1_0"])
    return str(rng.randint(0, 70000))


def _expr(rng, depth=0, ops="+-*/&|~<>"):
    k = rng.random()
    if depth > 2 or k < 0.45:
        return rng.choice([_number(rng), rng.choice(IDENTS)])
    if k < 0.55:
        return rng.choice("-~" if "~" in ops else "-") + _expr(rng, depth + 1, ops)
    if k < 0.7:
        return "(" + rng.choice(["", " "]) + _expr(rng, depth + 1, ops) + rng.choice(["", " "]) + ")"
    op = rng.choice(ops)
    op = {"<": "<<", ">": ">>"}.get(op, op)
    sp = rng.choice(["", " ", "  "])
    return _expr(rng, depth + 1, ops) + sp + op + sp + _expr(rng, depth + 1, ops)


def _instruction(rng):
    m = rng.choice(MNEMS)
    if rng.random() < 0.3:
        m += "." + rng.choice("bwlBWL")
    e = _expr(rng)
    idx = rng.choice("xyXYsS")
    sp = rng.choice(["", " "])
    shape = rng.choice(["imm", "dir", "dirx", "ind", "indy", "xind", "lng", "lngy", "sr", "sry", "none"] * 4 + ["mv"])
    op = {
        "imm": f"#{sp}{e}", "dir": e, "dirx": f"{e}{sp},{sp}{idx}", "ind": f"({sp}{e}{sp})", "indy": f"({e}){sp},{sp}{idx}",
        "xind": f"({e}{sp},{sp}{idx})", "lng": f"[{sp}{e}{sp}]", "lngy": f"[{e}],{sp}{idx}", "sr": f"{e},s",
        "sry": f"({e},s),y", "mv": f"{e}, {_expr(rng)}", "none": "",
    }[shape]
    return f"{m} {op}".rstrip() if rng.random() < 0.9 else f"{m}  {op}"


def _directive(rng):
    k = rng.choice(["db", "dw", "dl", "text", "ascii", "include", "incbin", "table", "pointer", "map", "star", "at", "assign",
                    "equal", "scope", "if", "for", "macro", "apply", "include_ips", "struct"])
    e = _expr(rng, ops="+-*&<>")
    ident = rng.choice(IDENTS)
    s = rng.choice(["hello", "a b", "it\\'s", "", "x;y", "/* no */", "\u00e9t\u00e9"])
    return {
        "db": f".db {e}, {_expr(rng, ops='+-&')}", "dw": f".dw {e}", "dl": f".dl {e},{e}", "text": f".text '{s}'",
        "ascii": f".ascii '{s}'", "include": f".include '{s}.s'", "incbin": f".incbin '{s}.bin'", "table": f".table '{s}.tbl'",
        "pointer": f".pointer {e}", "map": ".map identifier=rom bank_range=0x00,0x6f addr_range=0x8000,0xffff mask=0x8000",
        "star": f"*= {e}", "at": f"@= {e}", "assign": f"{ident} := {e}", "equal": f"{ident} = {e}",
        "scope": f".scope {ident} {{\n {_instruction(rng)}\n}}", "if": f".if {e} {{\n {_instruction(rng)}\n}} .else {{\n nop\n}}",
        "for": f".for k := 0, {e} {{\n .db k\n}}", "macro": f".macro {ident}(a, b) {{\n lda.w #a\n sta b\n}}",
        "apply": f"{ident}({e}, {_expr(rng)})", "include_ips": f".include_ips '{s}.ips', {e}",
        "struct": f".struct {ident} {{\n byte a\n word b\n}}",
    }[k]


def _statement(rng):
    k = rng.random()
    if k < 0.4:
        st = _instruction(rng)
    elif k < 0.5:
        st = rng.choice(NAKED)
    elif k < 0.6:
        st = rng.choice(IDENTS) + ":"
    elif k < 0.65:
        st = "{\n " + _instruction(rng) + "\n}"
    elif k < 0.7:
        st = "{{ " + rng.choice(IDENTS) + " }}"
    else:
        st = _directive(rng)
    k = rng.random()
    if k < 0.15:
        st += rng.choice([" ", "  ", "\t"]) + "; " + rng.choice(["comment", "x 'y", "/* */", ""])
    elif k < 0.2:
        st = "/* " + rng.choice(["multi\nline", "one", "*", "**/ nop /*"]) + " */" + rng.choice(["\n", " "]) + st
    elif k < 0.25:
        st = "; full line " + rng.choice(["", "'", "\t"]) + "\n" + st
    return st


def _program(rng, n):
    lines = []
    for _ in range(n):
        ind = rng.choice(["", "", " ", "    ", "\t"])
        lines.append(ind + _statement(rng) + rng.choice(["", "", " ", "\n"]))
    return "\n".join(lines) + rng.choice(["\n", "", "\n\n"])


def _mutations(text):
    out = []
    for i in range(len(text)):
        out.append(text[:i] + text[i + 1:])         # deletion
        out.append(text[:i])                        # truncation
        out.append(text[:i] + text[i] + text[i:])   # duplication
    return out


def _malformed(rng, tier):
    out = []
    base = ["nop\n.text 'abc'\nlda #1\n", "x := 1 /* c */ + 2\nrts", "lda.w label,x ; c\n"]
    for b in base:
        for i in range(len(b) + 1):
            out.append(b[:i] + "'" + b[i:])             # unterminated string at every position
            out.append(b[:i] + "/*" + b[i:])            # unterminated comment at every position
            out.append(b[:i] + "\0" + b[i:])            # NUL at every position
            for ch in "?$\\\r\u00e9!:@%^\"`|~/":
                if rng.random() < (1.0 if tier == "thorough" else 0.25):
                    out.append(b[:i] + ch + b[i:])      # invalid characters
    pre = ["", "\n", "nop\n", "a:\n  ", "; c\n", "/* x\ny */\n", "'s'\n", "\n\n\t", "lda #1 ; z\n", ".db 1\n\n"]
    post = ["", "\n", "\nnop", " ; c", "\n\nrts\n", " \0", "\0x\n", " 'q", "\r\n"]
    bad = ["lda.q", "lda.", "lda.q #1", "lda. #1", "LDA.", "lda 1,z", "lda 1,", "lda (1,q)", "lda [1],", "lda (1),  w", "lda.b 1,\n",
           ".foo", ".", ".Db", ".db_", ".macroo", ". db", "'abc", "'ab\\'", "'ab\\", "'", "/*", "/* *", "/*/", "/* a\nb", "?", "\\", "\u00e9",
           "lda\t#1", "nop\tx", "lda #1\r", "nop\r", "a\r\nb\r\n", "\0", "nop\0", "nop \0 x", "lda #\0", "'a\0b'", "'a\0b", "; c\0d\nx",
           "/* \0 */", "lda 0x", "lda 0", "0", "0b", "0o8", "09", "1a", "1.", "a.b.c", "a.:", "a:=1", "a:", "a: =", "a :", "::", ":", "@", "@ =",
           "* =", "*", "*=", "==", "!=", "!", ">=", "<=", ">", "<", ">>", "<<", ">>>", "= =", "&", "|", "~", "/", "/ *", "{{{", "}}}", "{ {", "lda.w.b", "lda.b.",
           "nop nop", "nop ; x", "nop ;", "nop;", "nop /* */", "nop.", "nop.b", "nop 1", "nopx", "nop\n", "nop  \t ", "nop \t; c\nrts", "rts ; \0 a",
           "ldax", "lda", "ld", "l", "lda#1", "lda(1)", "lda.b", "lda.b#1", "lda  .b", "LDA #1", "lDa.W #1", "lda #1 2", "lda.b #1 2 3",
           "lda #1,x,y", "lda (1,x),y", "lda ((1))", "lda (1", "lda 1)", "lda [1", "lda #(1+2)*3", "lda a b", "lda a:", "lda a.b", "lda a.",
           "lda 1 + + 2", "lda -", "lda - 1", "lda <<", "lda 1<<2>>3", "lda 1 < 2", "lda 'a'", "lda ;", "lda ; c", "lda /* */ 1", "lda ,x", "lda , x",
           "lda 1 ,x", "lda 1, x", "lda 1 , X", "lda 1,xx", "lda 1,x y", "lda (1) , y", "lda (1 ,s) ,y", "lda\n1", "lda \n 1", "lda.w\n", "lda.w \n1",
           "br\u212b", "a\u00e9", "\u00e9a", "x = '\u00e9'", "; \u00e9\nnop", "nop ; \u00e9", "\U0001F600", "lda \U0001F600"]
    for b in bad:
        out.append(b)
        n = len(pre) * len(post)
        picks = n if tier == "thorough" else 5
        for _ in range(picks) if tier != "thorough" else range(0):
            out.append(rng.choice(pre) + b + rng.choice(post))
        if tier == "thorough":
            for p in pre:
                for q in post:
                    out.append(p + b + q)
    return out


EXPR_TEXTS = ["1 + 2", "1 ?", "a,b", "1 \n 2", "", " ", "1", "a", "-1", "~0x80", "0x00ff | 0xff00", "1 << 16", "1 >> 16", "(1+2)*3",
              "a.b + c", "a: + 1", "a:=1", "1 + 'x'", "0x", "0b102", "0o78", "09", "1.5", "a.b.c", "_x*_y", "((((1))))", ")(", "1 <", "1 < 2",
              "<<", ">>>", "1 / 2", "1 & 2 | 3", "~~1", "- - 1", "1\n", "\n1", "1\t+ 2", "1 +\t2", "\0", "1 \0", "1 + \u00e9", "lda", "nop", "lda #1",
              "#1", "[1]", "{1}", "1 ; c", "1 /* c */", "a = 1", "1 == 1", "1 != 2", "x,", "1 2 3", "abc def", "0", "00", "0x1G", "1 +", "+", "  1  ",
              "1  ", "label.sub", "label.", ".label", "a:b", "a::", "9a", "a9"]


def cases(ctx):
    rng, tier = ctx["rng"], ctx["tier"]
    texts: list[tuple[str, str, str]] = []      # (entry, source tag, text)

    # (a) fragment sequences
    for t in _fragment_sequences(2 if tier == "quick" else 3):
        texts.append(("initial", "fragments", t))
    # (b) repository texts
    for t in _harvest_repo_texts():
        texts.append(("initial", "repo", t))
    # (c) generated statements / programs and their single-character mutations
    n_stmt = 100 if tier == "quick" else 600
    stmts = []
    for _ in range(n_stmt):
        st = _statement(rng)
        if rng.random() < 0.5:
            st += "\n"
        if rng.random() < 0.3:
            st = rng.choice(["\n", "x:\n", "; c\n", "nop\n"]) + st
        stmts.append(st)
    for st in stmts:
        texts.append(("initial", "statement", st))
        if len(st) <= 40 or tier == "thorough":
            for m in _mutations(st):
                texts.append(("initial", "mutation", m))
        else:
            ms = _mutations(st)
            for m in rng.sample(ms, 45):
                texts.append(("initial", "mutation", m))
    n_prog = 60 if tier == "quick" else 1500
    for _ in range(n_prog):
        p = _program(rng, rng.randint(2, 14))
        texts.append(("initial", "program", p))
        ms = _mutations(p)
        for m in rng.sample(ms, min(len(ms), 6 if tier == "quick" else 40)):
            texts.append(("initial", "program-mutation", m))
    # random fragment soup (longer sequences)
    for _ in range(300 if tier == "quick" else 20000):
        k = rng.randint(3, 12)
        texts.append(("initial", "soup", rng.choice(["", " "]).join(rng.choice(ALPHABET) for _ in range(k))))
    # (d) malformed stream
    for t in _malformed(rng, tier):
        texts.append(("initial", "malformed", t))
    # scan_expression
    ex = list(EXPR_TEXTS)
    for _ in range(250 if tier == "quick" else 5000):
        ex.append(_expr(rng))
    for _ in range(150 if tier == "quick" else 3000):
        e = _expr(rng)
        if e:
            i = rng.randrange(len(e))
            ex.append(rng.choice([e[:i] + e[i + 1:], e[:i], e[:i] + rng.choice("?,\n;'#.:=x \t") + e[i:]]))
    for seq in itertools.product(["1", "a", "+", "-", "~", "<<", ">>", "(", ")", " ", "0x", ".", ":", "?", "\n", "<", "*", ",", "a:"],
                                 repeat=2):
        ex.append("".join(seq))
    for t in ex:
        texts.append(("expression", "expr", t))

    seen, out = set(), []
    for entry, tag, t in texts:
        if LOWER_GAP & set(t):
            continue
        if (entry, t) in seen:
            continue
        seen.add((entry, t))
        out.append({"entry": entry, "src": tag, "text": t})
    return out


# ----------------------------------------------------------------------------- implementation driver

def _tok(t, start):
    p = t.position
    return [t.type.value, t.value, p.line if p else None, p.column if p else None, p.file.filename if p else None, start]


def observe(case):
    from a816.parse.errors import ScannerException
    from a816.parse.scanner import Scanner
    from a816.parse.scanner_states import lex_expression, lex_initial

    starts: list[int] = []

    class Watched(Scanner):
        def emit(self, token_type):            # records Scanner.start at emit time; behaviour unchanged
            starts.append(self.start)
            super().emit(token_type)

    entry = case["entry"]
    sc = Watched(lex_initial if entry == "initial" else lex_expression)
    fname = FILE_INITIAL if entry == "initial" else FILE_EXPR
    try:
        toks = sc.scan(fname, case["text"])
        return {"ok": {"toks": [_tok(t, s) for t, s in zip(toks, starts)], "lines": list(sc.file.lines),
                       "n": [len(toks), len(starts)]}}
    except ScannerException as e:
        try:
            quoted = e.position.get_line()
        except IndexError:
            quoted = None
        return {"serr": {"msg": str(e), "line": e.position.line, "col": e.position.column, "quoted": quoted,
                         "file": e.position.file.filename,
                         "toks": [_tok(t, s) for t, s in zip(sc.tokens, starts)], "lines": list(sc.file.lines),
                         "n": [len(sc.tokens), len(starts)]}}
    except Exception as e:
        if type(e).__name__ == "Timeout":
            raise
        return {"other": f"{type(e).__name__}: {e}"[:200]}


# ----------------------------------------------------------------------------- Coq terms

def _otoks(toks, fname):
    items = []
    for ty, val, line, col, f, st in toks:
        if line is None or f != fname:
            return None
        items.append(f"OT {ty} {C.cstr(val)} {C.z(line)} {C.z(col)} {C.z(st)}")
    return "[" + ";".join(items) + "]"


def coq_term(case, ob):
    entry = "E_initial" if case["entry"] == "initial" else "E_expression"
    fname = FILE_INITIAL if case["entry"] == "initial" else FILE_EXPR
    o = "SOther"
    if "ok" in ob:
        d = ob["ok"]
        ts = _otoks(d["toks"], fname)
        if ts is not None and d["n"][0] == d["n"][1]:
            o = f"(SOk {ts} {C.clist(d['lines'], C.cstr)})"
    elif "serr" in ob:
        d = ob["serr"]
        ts = _otoks(d["toks"], fname)
        if ts is not None and d["n"][0] == d["n"][1] and d["file"] == fname:
            o = (f"(SErr {C.cstr(d['msg'])} {C.z(d['line'])} {C.z(d['col'])} {C.copt(d['quoted'], C.cstr)} "
                 f"{ts} {C.clist(d['lines'], C.cstr)})")
    return f"mk_case {entry} {C.cstr(fname)} {C.cstr(case['text'])} {o}"


def nontrivial_key(case, ob):
    if "ok" in ob and len(ob["ok"]["toks"]) > 1:
        return [case["entry"], case["text"]]
    if "serr" in ob:
        return [case["entry"], case["text"]]
    return None


def tags(case, ob):
    if "ok" in ob:
        res = "ok"
    elif "serr" in ob:
        res = "err:" + " ".join(ob["serr"]["msg"].split(" ")[:2])
    elif ob.get("timeout"):
        res = "TIMEOUT"
    else:
        res = "OTHER"
    return [f"{case['entry']}:{case['src']}:{res}"]
