"""TBLFILE — model tie of table-file loading (Model/TableFile.v <-> script.Table.__init__/include/parse_table_line/
transform_byte_matches_to_int and the regex table_line_regex).

A case is the TEXT of a generated `.tbl` file.  `observe` writes it (UTF-8, newline="\\n", so "\\r" in the text reaches the
disk and is translated by the reader) into a private directory under /verif/work, calls `script.Table(path)` from /repo
and records either the exception kind or the loaded object: `lookup` and `inverted_lookup` as item lists in insertion
order, both maxima, and `to_bytes` of a few probe strings.

Correspondence bit: Model/TableFile.v `table_of_file` on the same characters, compared field by field; Model/Table.v
`to_bytes` of the model table against the observed probe results.

Oracle bit (Oracle/TblFileo.v `spec_ok`, independent of the model functions): the generator knows what it rendered —
for files made of well-formed lines (plus lines known not to be table lines) the observed dictionaries must be the
intended entries with last-write-wins; files with an intended bad line, or no entry at all, must raise ValueError;
every loaded object must satisfy structural facts (maxima of `lookup`, non-empty texts/codes, no backslash-n left ...).
"""
from __future__ import annotations

import os
import shutil
import sys
import tempfile

from .. import common as C
from ..obs import observe_call, obs_term

ID = "TBLFILE"
HEADER = "From A816 Require Import Oracle.TblFileo."
CASE_TYPE = "case"
CHECK = "check"
MODEL_VIEW = "model_view"
PROOF_HEADER = "From A816 Require Import Properties.C18FileOracle Properties.C18File."
THEOREMS = ["C18F_match_deterministic", "C18F_search_sound", "C18F_search_complete", "C18F_match_unique_groups",
            "C18F_match_exists_iff", "C18F_match_shape", "C18F_line_match", "C18F_line_roundtrip",
            "C18F_line_roundtrip_no_newline", "C18F_unescape_escape", "C18F_file_roundtrip",
            "C18F_file_roundtrip_no_final_newline", "C18F_disk_roundtrip", "C18F_entries_roundtrip",
            "C18F_dec_digits", "C18F_include_factors", "C18F_split_lines_concat", "C18F_file_to_bytes",
            "C18F_file_lines_to_bytes", "C18F_file_roundtrip_codec", "C18F_reject_not_hex", "C18F_reject_blank",
            "C18F_odd_hex", "C18F_odd_hex_line", "C18F_hex_pairs_parity", "C18F_ignore_letter",
            "C18F_ignore_too_long", "C18F_bad_line_rejects_file", "C18F_empty_file", "C18F_no_entries",
            "C18F_no_fuel", "C18F_nonvacuous_line", "C18F_nonvacuous_file", "C18F_nonvacuous_backtrack",
            "C18F_oracle_rejected", "C18F_oracle_loaded_is_model", "C18F_oracle_loaded_verdict", "C18F_oracle_self_corr"]
RULE = ("texts of generated .tbl files loaded by script.Table(path): files of 1-25 rendered well-formed lines (1-4 byte "
        "codes in upper/lower/mixed-case hex, optional ':k' with leading zeros and up to 2000 digits, blanks of every \\s "
        "class before '=', texts with '=', ':', backslashes, escaped newlines, non-ASCII, trailing blanks, duplicates of texts "
        "and codes, with and without final newline, LF/CRLF/CR line ends), the same interleaved with lines that are no table "
        "lines (blank, comment, leading blank, '=x', ':' without digits, empty text, BOM, full-width digits ...), files with "
        "one failing line (odd digit count, ignore with a hex letter, ignore above 4300 digits), files without any entry, "
        "very long lines, and random character soup over the significant characters; non-trivial = loaded; distinct by text")
PROVED_NOTE = ("proved on the model for all inputs: the line regex is deterministic (a small backtracking matcher run on the "
               "regex computes exactly match_table_line; every declarative match has the same byte/ignore groups), every "
               "well-formed rendered line parses back to its entry, every file of well-formed lines loads to "
               "table_of_entries of its entries (LF text and on-disk text), unescape(escape t) = t exactly when t has no "
               "backslash-n, the rejection behaviour (no hex start, odd digit count, hex letter or > 4300 digits in the "
               "ignore field, empty file), no fuel. Correspondence-only: that script/__init__.py computes what "
               "Model/TableFile.v computes (CPython re / str.replace / zip(strict) / int / readlines semantics as modelled).")
EXHAUSTIVE = {"quick": False, "thorough": False}
CASE_TIMEOUT = 20
SHARD = 120

SPACES = [9, 11, 12, 28, 29, 30, 31, 32, 133, 160, 5760, 8192, 8193, 8194, 8195, 8196, 8197, 8198, 8199, 8200, 8201, 8202,
          8232, 8233, 8239, 8287, 12288]            # \s without \n (10) and \r (13): those end the line
TEXT_ALPHA = "abcnABC019 =:;.,\\\\\t[]xé漢ß\u2028\x85\U0001F600"
NOISE = ["", " ", "; comment", "# not = a line", "  41=indented is no match", " 41=x", "\t41=x", "xyz", "=x", "==", "x=1",
         "g1=x", "01", "01:", "01:=x", "01:2", "01:2:3=x", "0a:1 f=x", "01 2=x", "01=", "01 =", "01:3=", "01-02=x",
         "\ufeff41=bom", "\uff101=x", "01:\uff12=x", "-1=x", "+1=x", "0x41=x", "$41=x", "41 : 2=x", "41: 2=x", "41 :2=x",
         ":2=x", "41;=x", "\xa041=x", "_41=x", "4_1=x"]
BAD = ["0=x", "012=x", "abc=1", "01234=odd", "F=\\n", "01:1f=x", "01:A=q", "41:0a =x", "01:f=x", "4:1=x", "ABCDE:2=x",
       "0a1 =x", "fff\t=x", "01:" + "1" * 4301 + "=big", "01:" + "0" * 4300 + "1=zeros"]


# ----------------------------------------------------------------------------- rendering (mirrors Model/TableFile.v render_line)

def _hex(code, ups):
    out = []
    for i, b in enumerate(code):
        for j, d in enumerate((b >> 4, b & 15)):
            up = ups[2 * i + j] if 2 * i + j < len(ups) else False
            out.append("0123456789ABCDEF"[d] if up else "0123456789abcdef"[d])
    return "".join(out)


def render(w) -> str:
    ign = "" if w["ignore"] is None else ":" + w["ignore"]
    return _hex(w["code"], w["upper"]) + ign + w["blanks"] + "=" + w["text"].replace("\n", "\\n")


def entry_of(w):
    return [w["text"], list(w["code"]), None if w["ignore"] is None else int(w["ignore"])]


def _text(rng, maxlen=6):
    while True:
        r = rng.random()
        if r < 0.25:
            t = rng.choice("abcnAB= \\")
        else:
            t = "".join(rng.choice(TEXT_ALPHA) for _ in range(rng.randint(1, maxlen)))
        if r > 0.85:                                     # intended newlines (written as backslash-n)
            i = rng.randint(0, len(t))
            t = t[:i] + "\n" + t[i:]
        if r > 0.95:
            t = t + rng.choice([" ", "  ", "\t", " \\"])
        t = t.replace("\r", "")
        if t and "\\n" not in t:
            return t


def _wline(rng, prev):
    r = rng.random()
    if prev and r < 0.10:                               # duplicate text
        text, code = rng.choice(prev)["text"], [rng.randrange(256) for _ in range(rng.randint(1, 3))]
    elif prev and r < 0.18:                             # duplicate code
        text, code = _text(rng), list(rng.choice(prev)["code"])
    elif prev and r < 0.24:                             # code extending another one
        text, code = _text(rng), list(rng.choice(prev)["code"]) + [rng.randrange(256)]
    else:
        text = _text(rng)
        code = [rng.choice([0, 1, 0x0A, 0x41, 0x7F, 0x80, 0xAB, 0xFF, rng.randrange(256), rng.randrange(256)])
                for _ in range(rng.choice([1, 1, 1, 2, 2, 3, 4]))]
    cs = rng.random()
    n = 2 * len(code)
    ups = [] if cs < 0.5 else [True] * n if cs < 0.75 else [rng.random() < 0.5 for _ in range(n)]
    ign = None
    if rng.random() < 0.25:
        k = rng.choice([0, 1, 2, 3, 9, 10, 12, 255, rng.randrange(1000)])
        ign = "0" * rng.choice([0, 0, 0, 1, 3]) + str(k)
    bl = ""
    if rng.random() < 0.3:
        bl = "".join(chr(rng.choice([32, 32, 9] + SPACES)) for _ in range(rng.randint(1, 3)))
    return {"code": code, "upper": ups, "ignore": ign, "blanks": bl, "text": text}


def _join(rng, lines, eol="\n"):
    if not lines:
        return ""
    last = "" if rng.random() < 0.12 else eol
    return eol.join(lines) + last


def _probes(rng, text):
    frags = []
    for ln in text.replace("\r", "\n").split("\n"):
        if "=" in ln:
            frags.append(ln.split("=", 1)[1].replace("\\n", "\n"))
    frags = [f for f in frags if f] or ["a"]
    out = []
    for _ in range(rng.choice([1, 2, 2, 3])):
        parts = []
        for _ in range(rng.randint(0, 4)):
            r = rng.random()
            if r < 0.7:
                f = rng.choice(frags)
                parts.append(f if rng.random() < 0.7 else f[:rng.randint(0, len(f))])
            elif r < 0.85:
                parts.append(rng.choice("azZ é=\\"))
            else:
                parts.append(rng.choice(["[0x41]", "[0xfF]", "[0x", "[0x123]"]))
        out.append("".join(parts)[:200])
    return out


def _case(rng, kind, text, intent):
    return {"kind": kind, "text": text, "intent": intent, "probes": _probes(rng, text)}


def _wf_lines(rng, n):
    ws = []
    for _ in range(n):
        ws.append(_wline(rng, ws))
    return ws


def cases(ctx):
    rng, tier = ctx["rng"], ctx["tier"]
    scale = 1 if tier == "quick" else 14
    out = []

    # ---- fixed shapes: the enumeration made while modelling (backtracking corner cases)
    fixed = ["01:2=x", "01:2 =x", "01:=x", "0a:1f=x", "0a:1f", "0a:1 f=x", "01=x", "01 =x", " 01=x", "012=x", "0=x", "01=",
             "01==", "01:2:3=x", "01:ab=x", "0a1=x", "01=x\r", "01\n=x", "01 \n =x", "01\x85=x", "01\x1c=x", "=x",
             "01:2\t\x0b\x0c =x", "01:\uff12=x", "\uff101=x", "01:0_1=x", "01:0=x", "01:00=x", "41=\\n", "41=\\\\n", "41=\\",
             "41=n\\", "41=\\n\\n", "41=\\\\\\n", "41=a\\nb", "4142=ab\n41=a\n42=b", "41=a\n41=b\n42=a", "41= a ", "41 = a",
             "41=a=b", "41:=a", "41=:a", "41::=a", "41=é漢", "fF=x", "Ff:010=x", "41=a\n\n\n42=b", "41=a\r\n42=b\r\n",
             "41=a\r42=b", "41=a\r\r\n42=b", "41=a\n\r", "\r", "\n", "", "41=a\x0b42=b", "41=a\u202842=b", "41=a\x0c\n",
             "41=\t", "41= ", "41=\x85", "41 \t\u3000=x", "41\xa0\u1680\u2000\u200a\u2028\u2029\u202f\u205f=x",
             "41\x1c\x1d\x1e\x1f=x", "41\u200b=x", "41\u180e=x", "41\ufeff=x", "0041=a", "00=\\n", "0000:0000=zz"]
    for t in fixed:
        for text in (t, t + "\n", "41=first\n" + t + "\n42=last\n"):
            out.append(_case(rng, "fixed", text, ["unknown"]))

    # ---- well-formed files
    for _ in range(520 * scale):
        ws = _wf_lines(rng, rng.choice([1, 1, 2, 3, 5, 8, 13, 25]))
        out.append(_case(rng, "wf", _join(rng, [render(w) for w in ws]), ["entries", [entry_of(w) for w in ws]]))
    # ---- ... with CRLF / CR line ends (universal newlines)
    for _ in range(80 * scale):
        ws = _wf_lines(rng, rng.randint(1, 8))
        for w in ws:
            w["blanks"] = w["blanks"].replace("\r", "")
        out.append(_case(rng, "wf-crlf", _join(rng, [render(w) for w in ws], rng.choice(["\r\n", "\r"])),
                         ["entries", [entry_of(w) for w in ws]]))
    # ---- every \s class between the numbers and '='
    for sp in SPACES:
        for ign in (None, "2"):
            w = {"code": [0x41], "upper": [], "ignore": ign, "blanks": chr(sp) * rng.randint(1, 2), "text": "s" + chr(sp)}
            w2 = {"code": [0x42, 0x43], "upper": [True] * 4, "ignore": None, "blanks": " " + chr(sp) + "\t", "text": chr(sp) + "="}
            out.append(_case(rng, "wf-space", _join(rng, [render(w), render(w2)]), ["entries", [entry_of(w), entry_of(w2)]]))
    # ---- well-formed lines + lines that are no table lines
    for _ in range(330 * scale):
        ws = _wf_lines(rng, rng.randint(0, 8))
        lines = []
        for w in ws:
            while rng.random() < 0.35:
                lines.append(rng.choice(NOISE))
            lines.append(render(w))
        while rng.random() < 0.4 or not lines:
            lines.append(rng.choice(NOISE))
        out.append(_case(rng, "wf+noise" if ws else "noise-only", _join(rng, lines), ["entries", [entry_of(w) for w in ws]]))
    # ---- one failing line among well-formed ones
    for _ in range(170 * scale):
        ws = _wf_lines(rng, rng.randint(0, 6))
        lines = [render(w) for w in ws]
        bad = rng.choice(BAD)
        if rng.random() < 0.5:                          # a generated bad line
            w = _wline(rng, ws)
            r = rng.random()
            if r < 0.5:
                h = _hex(w["code"], w["upper"])
                h = h[:-1] if rng.random() < 0.5 else h + rng.choice("0aF")
                bad = h + ("" if w["ignore"] is None else ":" + w["ignore"]) + w["blanks"] + "=" + w["text"].replace("\n", "\\n")
            else:
                ig = (w["ignore"] or "") + rng.choice("abcdefABCDEF") + rng.choice(["", "0", "9"])
                bad = _hex(w["code"], w["upper"]) + ":" + ig + w["blanks"] + "=" + w["text"].replace("\n", "\\n")
        lines.insert(rng.randint(0, len(lines)), bad)
        if rng.random() < 0.3:
            lines.insert(rng.randint(0, len(lines)), rng.choice(NOISE))
        out.append(_case(rng, "bad-line", _join(rng, lines), ["error"]))
    # ---- long lines
    for i in range(12 * scale):
        w = _wline(rng, [])
        which = i % 4
        if which == 0:
            w["text"] = "".join(rng.choice("ab =\\\né") for _ in range(rng.randint(2000, 6000))).replace("\\n", "\\ n")
        elif which == 1:
            w["code"] = [rng.randrange(256) for _ in range(rng.randint(200, 600))]
            w["upper"] = [rng.random() < 0.5 for _ in range(2 * len(w["code"]))]
        elif which == 2:
            w["ignore"] = "0" * rng.choice([0, 5, 4299 - 30]) + "".join(rng.choice("0123456789") for _ in range(rng.choice([30, 200, 1900])))
            w["ignore"] = w["ignore"][:4300]
        else:
            w["blanks"] = "".join(chr(rng.choice(SPACES)) for _ in range(rng.randint(500, 3000)))
        ws = [w] + _wf_lines(rng, rng.randint(0, 2))
        out.append(_case(rng, "wf-long", _join(rng, [render(x) for x in ws]), ["entries", [entry_of(x) for x in ws]]))
    out.append(_case(rng, "wf-long", "41:" + "0" * 4299 + "7=edge\n", ["entries", [["edge", [0x41], 7]]]))
    out.append(_case(rng, "bad-line", "41:" + "0" * 4300 + "7=edge\n", ["error"]))
    # ---- character soup over the significant characters
    soup = "00114aAfFgG::==  \t\\\\nn\n\n\n\r\x85\xa0\u2028xé"
    for _ in range(300 * scale):
        if rng.random() < 0.5:
            text = "".join(rng.choice(soup) for _ in range(rng.choice([0, 1, 2, 3, 5, 8, 13, 21, 40])))
        else:                                           # mutate a well-formed file: delete / insert / replace one character
            ws = _wf_lines(rng, rng.randint(1, 5))
            text = _join(rng, [render(w) for w in ws])
            for _ in range(rng.randint(1, 3)):
                i = rng.randint(0, len(text))
                op = rng.random()
                if op < 0.4 and text:
                    text = text[:i] + text[i + 1:]
                elif op < 0.8:
                    text = text[:i] + rng.choice(soup) + text[i:]
                else:
                    text = text[:i] + rng.choice(soup) + text[i + 1:]
        out.append(_case(rng, "soup", text, ["unknown"]))
    return out


# ----------------------------------------------------------------------------- implementation driver

def observe(case):
    from script import Table
    C.WORK.mkdir(exist_ok=True)
    d = tempfile.mkdtemp(prefix="tblfile-", dir=str(C.WORK))
    old = sys.get_int_max_str_digits()
    sys.set_int_max_str_digits(4300)                    # CPython's default (common.py lifts it for the harness itself)
    try:
        p = os.path.join(d, "t.tbl")
        with open(p, "w", encoding="utf-8", newline="\n") as f:
            f.write(case["text"])

        def load():
            t = Table(p)
            return t
        r = observe_call(load)
        if "ok" not in r:
            return r
        t = r["ok"]
        probes = [observe_call(lambda s=s: list(t.to_bytes(s))) for s in case["probes"]]
        inv = []
        for code, v in t.inverted_lookup.items():
            inv.append([list(code), [v[0], v[1]] if isinstance(v, tuple) else [v, None]])
        return {"ok": {"lookup": [[k, list(v)] for k, v in t.lookup.items()], "inv": inv,
                       "mb": t.max_bytes_length, "mt": t.max_text_length, "probes": probes}}
    finally:
        sys.set_int_max_str_digits(old)
        shutil.rmtree(d, ignore_errors=True)


# ----------------------------------------------------------------------------- Coq terms

def _entry(e) -> str:
    return f"({C.cstr(e[0])},{C.zlist(e[1])},{C.copt(e[2], C.z)})"


def _intent(it) -> str:
    if it[0] == "entries":
        return f"(IEntries {C.clist(it[1], _entry)})"
    return "IError" if it[0] == "error" else "IUnknown"


def _tbl(o) -> str:
    lk = C.clist(o["lookup"], lambda p: C.cpair(C.cstr(p[0]), C.zlist(p[1])))
    inv = C.clist(o["inv"], lambda p: C.cpair(C.zlist(p[0]), C.cpair(C.cstr(p[1][0]), C.copt(p[1][1], C.z))))
    return f"({lk},{inv},({C.z(o['mb'])},{C.z(o['mt'])}))"


def coq_term(case, ob):
    probes = "[]"
    if isinstance(ob, dict) and "ok" in ob:
        probes = C.clist(list(zip(case["probes"], ob["ok"]["probes"])),
                         lambda p: C.cpair(C.cstr(p[0]), obs_term(p[1], C.zlist)))
    return f"CFile {C.cstr(case['text'])} {_intent(case['intent'])} {obs_term(ob, _tbl)} {probes}"


def weight(case) -> int:
    return 1 + len(case["text"]) // 400


def nontrivial_key(case, ob):
    if not isinstance(ob, dict) or "ok" not in ob:
        return None
    return C.short_hash(case["text"])


def tags(case, ob):
    acc = "loaded" if isinstance(ob, dict) and "ok" in ob else ("ValueError" if isinstance(ob, dict) and ob.get("err") == "EValue"
                                                                else "other:" + str(ob.get("err") if isinstance(ob, dict) else ob))
    if acc == "ValueError":
        msg = ob.get("msg", "")
        acc += (":no-entry" if "max()" in msg else ":odd-digit-count" if "zip()" in msg else ":ignore-not-decimal"
                if "invalid literal" in msg else ":ignore-over-4300-digits" if "Exceeds the limit" in msg else ":?")
    t = [f"{case['kind']}:{acc}"]
    text = case["text"]
    if text and not text.endswith(("\n", "\r")):
        t.append("feature:no-final-newline")
    if "\r" in text:
        t.append("feature:carriage-return")
    if "\\n" in text:
        t.append("feature:escaped-newline")
    if any(ord(ch) > 127 for ch in text):
        t.append("feature:non-ascii")
    if case["intent"][0] == "entries":
        es = case["intent"][1]
        if len({e[0] for e in es}) < len(es):
            t.append("feature:duplicate-text")
        if len({tuple(e[1]) for e in es}) < len(es):
            t.append("feature:duplicate-code")
        if any(e[2] is not None for e in es):
            t.append("feature:ignore-field")
        if any(len(e[1]) > 1 for e in es):
            t.append("feature:multi-byte-code")
    return t
