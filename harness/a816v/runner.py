"""bin/check entry point: proof obligations + correspondence + spec oracle -> verdict.

    bin/check C04 --tier quick|thorough
    bin/check --replay replays/C04-xxxx.json

Verdict protocol (DESIGN.md section 2):
  P  a proof obligation of the property no longer checks
  D  implementation and model disagree on some input
  F  the spec oracle is false on the implementation's output for some input
"""
from __future__ import annotations

import argparse
import importlib
import json
import multiprocessing as mp
import os
import random
import re
import signal
import sys
import time
import traceback
from pathlib import Path

from . import common as C
from . import gen_tables

ALLOWED_AXIOMS: set[str] = set()   # target: every theorem closed under the global context

TRUSTED_BASE = [
    "Coq 8.16.1 kernel + bytecode VM (vm_compute); no native_compute",
    "axioms: none (every property theorem prints 'Closed under the global context')",
    "table translator harness/a816v/gen_tables.py (live Python objects -> Gen/*.v)",
    "correspondence harness (case generators, implementation drivers, canonicalisation)",
    "CPython 3.12 semantics of int/str/bytes/dict/struct as modelled in Gallina",
    "hand-written specifications in coq/theories/Spec",
]


class Timeout(BaseException):
    """Raised by the per-case alarm; not an Exception, so that `except Exception` in the code under test cannot eat it."""


def _alarm(_sig, _frm):
    raise Timeout()


_SPEC = None


def _worker_init(prop_id: str):
    global _SPEC
    _SPEC = importlib.import_module(f"a816v.props.{prop_id.lower()}")
    signal.signal(signal.SIGALRM, _alarm)


def _worker_observe(case):
    limit = getattr(_SPEC, "CASE_TIMEOUT", 20)
    signal.setitimer(signal.ITIMER_REAL, limit)
    try:
        return _SPEC.observe(case)
    except Timeout:
        return {"timeout": True}
    except BaseException as e:  # the driver itself failed: surfaces as a correspondence error
        return {"driver_error": f"{type(e).__name__}: {e}", "trace": traceback.format_exc()[-1500:]}
    finally:
        signal.setitimer(signal.ITIMER_REAL, 0)


def _pool_worker(prop_id: str, conn):
    """One observation process: receives chunks [(index, case)...], answers [(index, observation)...]."""
    _worker_init(prop_id)
    while True:
        try:
            chunk = conn.recv()
        except EOFError:
            return
        if chunk is None:
            return
        conn.send([(i, _worker_observe(c)) for i, c in chunk])


class _Slot:
    def __init__(self, ctx, prop_id):
        self.conn, child = ctx.Pipe()
        self.proc = ctx.Process(target=_pool_worker, args=(prop_id, child), daemon=True)
        self.proc.start()
        child.close()
        self.chunk = None
        self.deadline = 0.0
        self.done = 0

    def kill(self):
        try:
            self.proc.kill()
            self.proc.join(5)
        except Exception:
            pass
        try:
            self.conn.close()
        except Exception:
            pass


def observe_all(spec, cases):
    """Observations of all cases, in order, from a pool of forked processes.  Unlike multiprocessing.Pool this
    survives a worker that dies (segfault, os._exit, out of memory) or never comes back (a loop inside C code that
    no Python-level alarm can interrupt): the chunk is re-run case by case and the culprit alone is recorded as
    {"timeout": True, ...}, so a change that crashes or hangs the interpreter is reported, not waited for."""
    if getattr(spec, "OBSERVE_IN_PARENT", False):
        return [spec.observe(c) for c in cases]
    from multiprocessing.connection import wait as mp_wait
    ctx = mp.get_context("fork")
    limit = getattr(spec, "CASE_TIMEOUT", 20)
    per_child = getattr(spec, "MAX_TASKS_PER_CHILD", None)
    n = len(cases)
    size = max(1, n // (C.NCPU * 8) + 1)
    queue = [[(i, cases[i]) for i in range(k, min(n, k + size))] for k in range(0, n, size)]
    queue.reverse()
    results = [None] * n
    nproc = min(C.NCPU, max(1, n // 8 + 1))
    slots: list[_Slot] = []
    try:
        while queue or any(s.chunk is not None for s in slots):
            # hand out work
            slots = [s for s in slots if s.proc.is_alive() or s.chunk is not None]
            while len(slots) < min(nproc, len(queue) + len([s for s in slots if s.chunk is not None])):
                slots.append(_Slot(ctx, spec.ID))
            for s in slots:
                if s.chunk is None and queue and s.proc.is_alive():
                    if per_child is not None and s.done >= per_child:
                        try:
                            s.conn.send(None)
                        except Exception:
                            pass
                        s.kill()
                        continue
                    s.chunk = queue.pop()
                    s.deadline = time.time() + (limit + 2) * len(s.chunk) + 10
                    try:
                        s.conn.send(s.chunk)
                    except Exception:
                        pass                      # found dead below
            busy = [s for s in slots if s.chunk is not None]
            if not busy:
                continue
            ready = mp_wait([s.conn for s in busy] + [s.proc.sentinel for s in busy], timeout=1.0)
            now = time.time()
            for s in busy:
                got = None
                if s.conn in ready:
                    try:
                        got = s.conn.recv()
                    except (EOFError, OSError):
                        got = None
                if got is not None:
                    for i, ob in got:
                        results[i] = ob
                    s.chunk = None
                    s.done += 1
                    continue
                dead = not s.proc.is_alive()
                if dead or now > s.deadline:
                    chunk, code = s.chunk, (s.proc.exitcode if dead else None)
                    s.chunk = None
                    s.kill()
                    if len(chunk) == 1:
                        i = chunk[0][0]
                        results[i] = {"timeout": True,
                                      "crash": (f"observation process died (exit code {code})" if dead
                                                else "observation process did not answer in time and was killed")}
                    else:
                        for item in reversed(chunk):      # isolate the culprit: one case per process round
                            queue.append([item])
    finally:
        for s in slots:
            if s.proc.is_alive():
                try:
                    s.conn.send(None)
                except Exception:
                    pass
            s.kill()
    return results


def load_known():
    p = C.VERIF / "known_findings.json"
    if not p.exists():
        return {"open": [], "fixed": []}
    return json.loads(p.read_text())


def parse_assumptions(out: str, theorems: list[str]) -> dict[str, str]:
    """Split coqc output of a sequence of `Print Assumptions t.` into {theorem: text}."""
    res = {}
    chunks = re.split(r"(?=^(?:Closed under the global context|Axioms:))", out, flags=re.M)
    chunks = [c.strip() for c in chunks if c.strip().startswith(("Closed", "Axioms:"))]
    for t, c in zip(theorems, chunks):
        res[t] = c
    return res


def check_proofs(spec, workdir: Path, gen_q) -> tuple[list[str], dict]:
    """Returns (list of P-failures, info)."""
    fails: list[str] = []
    info: dict = {"theorems": {}, "obligations": 0, "discharged": 0}
    theorems = list(getattr(spec, "THEOREMS", []))
    header = getattr(spec, "PROOF_HEADER", f"From A816 Require Import Properties.{spec.ID}.")
    inst_text = spec.instantiate(gen_q) if hasattr(spec, "instantiate") else None
    text = header + "\n"
    if inst_text:
        text += inst_text[0] + "\n"
        theorems += inst_text[1]
    text += "\n".join(f"Print Assumptions {t}." for t in theorems) + "\n"
    f = workdir / f"Assumptions_{spec.ID}.v"
    f.write_text(text)
    rc, out = C.coqc(f, extra_q=gen_q, timeout=900)
    info["obligations"] = len(theorems)
    if rc != 0:
        fails.append(f"proof file for {spec.ID} does not compile:\n{out[-3000:]}")
        return fails, info
    parsed = parse_assumptions(out, theorems)
    for t in theorems:
        a = parsed.get(t)
        info["theorems"][t] = a or "MISSING"
        if a is None:
            fails.append(f"no Print Assumptions output for {t}")
        elif a.startswith("Closed under the global context"):
            info["discharged"] += 1
        else:
            axioms = set(re.findall(r"^(\S+)\s*:", a, flags=re.M)) - {"Axioms"}
            if axioms <= ALLOWED_AXIOMS:
                info["discharged"] += 1
            else:
                fails.append(f"{t} depends on axioms {sorted(axioms)}")
    return fails, info


def write_replay(spec, kind: str, payload: dict) -> Path:
    C.REPLAYS.mkdir(exist_ok=True)
    payload = {"property": spec.ID, "kind": kind, **payload}
    p = C.REPLAYS / f"{spec.ID}-{C.short_hash(payload)}.json"
    p.write_text(json.dumps(payload, indent=1, default=str))
    return p


def _term(spec, c, o):
    """Coq term of a case; a case whose observation cannot be shipped counts as a driver failure (fails the check)."""
    try:
        return spec.coq_term(c, o)
    except Exception as e:
        if isinstance(o, dict):
            o.setdefault("driver_error", f"cannot print the case: {type(e).__name__}: {e}")
        return spec.coq_term(c, {"driver_error": "unprintable observation"})


def evaluate(spec, cases, obs, workdir, gen_q, name="cases"):
    terms = [_term(spec, c, o) for c, o in zip(cases, obs)]
    weights = [spec.weight(c) for c in cases] if hasattr(spec, "weight") else None
    return C.run_case_shards(workdir, name, spec.HEADER + "\n" + getattr(spec, "GEN_IMPORT", ""),
                             spec.CASE_TYPE, spec.CHECK, terms,
                             shard=getattr(spec, "SHARD", 250), extra_q=gen_q,
                             timeout=getattr(spec, "SHARD_TIMEOUT", 900), weights=weights)


def model_view(spec, case, ob, workdir, gen_q) -> str:
    if not hasattr(spec, "MODEL_VIEW"):
        return ""
    term = spec.coq_term(case, ob)
    return C.coq_eval(workdir, "view", spec.HEADER + "\n" + getattr(spec, "GEN_IMPORT", ""),
                      [f"{spec.MODEL_VIEW} ({term})"], extra_q=gen_q)[-4000:]


def run_check(prop_id: str, tier: str, seed: int, replay: dict | None = None) -> int:
    t0 = time.time()
    spec = importlib.import_module(f"a816v.props.{prop_id.lower()}")
    workdir = C.new_workdir(prop_id)
    violations: list[str] = []
    try:
        P: list[str] = []
        # 0. nothing in the development may extend the trusted base
        hits = C.scan_forbidden()
        if hits:
            P.append("forbidden constructs: " + "; ".join(hits[:10]))
        # 1. static build (no-op when up to date)
        ok, out = (True, "") if os.environ.get("A816_SKIP_BUILD") else C.build_static()
        if not ok:
            P.append("static Coq development does not build:\n" + out[-3000:])
        # 2. regenerate tables from the live objects
        gen_q = []
        try:
            gen_tables.generate(workdir)
            gen_q = [(workdir, "Run")]
            for g in gen_tables.FILES:
                rc, o = C.coqc(workdir / g, extra_q=gen_q, timeout=600)
                if rc != 0:
                    P.append(f"generated {g} does not compile:\n{o[-2000:]}")
        except Exception as e:
            P.append(f"table translator failed (fail-closed): {type(e).__name__}: {e}")
        # 3. the property's theorems (static + instantiated on the regenerated tables)
        proof_info = {"theorems": {}, "obligations": 0, "discharged": 0}
        proof_future = None
        if not P:
            import concurrent.futures
            proof_pool = concurrent.futures.ThreadPoolExecutor(max_workers=1)
            proof_future = proof_pool.submit(check_proofs, spec, workdir, gen_q)
        # 4. correspondence + spec oracle
        rng = random.Random(seed)
        ctx = {"rng": rng, "tier": tier, "workdir": workdir, "seed": seed}
        if replay is not None and replay.get("case") is not None:
            cases = [replay["case"]]
        else:
            cases = spec.corpus_cases() if hasattr(spec, "corpus_cases") else []
            cases += spec.cases(ctx)
        tc = time.time()
        obs = observe_all(spec, cases)
        t_impl = time.time() - tc
        tc = time.time()
        D: list[int] = []
        F: list[int] = []
        coq_errors: list[str] = []
        if not any("does not build" in p or "does not compile" in p and "generated" in p for p in P):
            D, F, coq_errors = evaluate(spec, cases, obs, workdir, gen_q)
        t_coq = time.time() - tc
        # 4b. model-tie modules this property's theorems rest on (TIES): the same correspondence machinery on the
        #     inputs of the tie module; any disagreement there breaks the tie of this property's model
        tie_info: dict[str, dict] = {}
        tie_breaks: list[dict] = []
        tie_proofs: list = []
        if replay is None and not any("does not build" in p for p in P):
            for tid in getattr(spec, "TIES", []):
                tt = time.time()
                tspec = importlib.import_module(f"a816v.props.{tid.lower()}")
                tctx = {"rng": random.Random(seed), "tier": tier, "workdir": workdir, "seed": seed}
                tcases = (tspec.corpus_cases() if hasattr(tspec, "corpus_cases") else []) + tspec.cases(tctx)
                tobs = observe_all(tspec, tcases)
                tD, tF, terrs = evaluate(tspec, tcases, tobs, workdir, gen_q, name=f"tie_{tid.lower()}")
                tdrv = [i for i, o in enumerate(tobs) if isinstance(o, dict) and "driver_error" in o]
                # the tie module's own theorems (Print Assumptions, per-run instantiations) count as obligations too
                tfails, tproof = ([], {"theorems": {}, "obligations": 0, "discharged": 0})
                if getattr(tspec, "THEOREMS", None) or hasattr(tspec, "instantiate"):
                    tfails, tproof = check_proofs(tspec, workdir, gen_q)
                tie_proofs.append((tid, tfails, tproof))
                tie_info[tid] = {"cases": len(tcases), "disagreements": len(tD), "oracle_failures": len(tF),
                                 "obligations": tproof["obligations"], "discharged": tproof["discharged"],
                                 "seconds": round(time.time() - tt, 1), "rule": getattr(tspec, "RULE", "")[:400]}
                bad = (tF or tD or tdrv)
                if bad or terrs:
                    i = bad[0] if bad else None
                    # a tie whose oracle specifies code the property's statement does not name (TIE_DRIFT_ONLY) reports its
                    # oracle failures as drift of the modelled code: a correspondence alarm, not a failing input of the property
                    tie_breaks.append({"tie": tid, "spec_failure": bool(tF) and not getattr(tspec, "TIE_DRIFT_ONLY", False),
                                       "disagreements": len(tD), "oracle_failures": len(tF),
                                       "case": tcases[i] if i is not None else None,
                                       "implementation": tobs[i] if i is not None else None,
                                       "model": model_view(tspec, tcases[i], tobs[i], workdir, gen_q) if i is not None else "",
                                       "coq_errors": terrs[:2]})
        if proof_future is not None:
            fails, proof_info = proof_future.result()
            P += fails
        for tid, tfails, tproof in tie_proofs:
            P += [f"[tie {tid}] {f}" for f in tfails]
            proof_info["obligations"] += tproof["obligations"]
            proof_info["discharged"] += tproof["discharged"]
            for k, v in tproof["theorems"].items():
                proof_info["theorems"][f"{tid}.{k}"] = v
        drv = [i for i, o in enumerate(obs) if isinstance(o, dict) and "driver_error" in o]

        known = load_known()
        open_keys = {k["key"]: k for k in known.get("open", []) if k["property"] == spec.ID}
        key_of = getattr(spec, "finding_key", lambda c, o: None)
        known_hit: dict[str, int] = {}
        F_new = []
        for i in F:
            k = key_of(cases[i], obs[i])
            if k in open_keys:
                known_hit[k] = known_hit.get(k, 0) + 1
            else:
                F_new.append(i)
        D_new = [i for i in D if key_of(cases[i], obs[i]) not in open_keys]

        exit_code = 0
        replay_path = None
        if os.environ.get("A816_LIST_FAILS"):        # debugging aid: which cases fail, by kind
            for tag, idx in (("F", F_new), ("D", D_new)):
                for i in idx[:int(os.environ["A816_LIST_FAILS"])]:
                    print(f"  {tag} #{i} {cases[i].get('kind') if isinstance(cases[i], dict) else ''} -> "
                          f"{json.dumps(obs[i], default=str)[:300]}")
        if F_new:
            i = F_new[0]
            if hasattr(spec, "shrink"):
                try:
                    cases[i], obs[i] = spec.shrink(cases[i], obs[i], lambda c: _still_fails(spec, c, workdir, gen_q))
                except Exception as e:
                    C.log("shrink failed:", e)
            replay_path = write_replay(spec, "spec-failure", {
                "case": cases[i], "implementation": obs[i],
                "model": model_view(spec, cases[i], obs[i], workdir, gen_q),
                "what": "the spec oracle is false on the implementation's output for this input",
                "other_failing_cases": len(F_new) - 1,
            })
            print(f"VIOLATION property={spec.ID} replay={replay_path}")
            exit_code = 1
        elif any(b["spec_failure"] for b in tie_breaks):
            b = [b for b in tie_breaks if b["spec_failure"]][0]
            replay_path = write_replay(spec, "spec-failure", {
                "case": b["case"], "implementation": b["implementation"], "model": b["model"], "tie": b["tie"],
                "what": f"the spec oracle of the model-tie module {b['tie']} (a part of the model this property's theorems "
                        "rest on) is false on the implementation's output for this input",
                "replay_with": f"bin/check {b['tie']} --tier quick"})
            print(f"VIOLATION property={spec.ID} replay={replay_path}")
            exit_code = 1
        elif P or D_new or coq_errors or drv or tie_breaks:
            # proof or correspondence broke without a spec failure in the sample: targeted search
            found = None
            if hasattr(spec, "search"):
                try:
                    found = spec.search(ctx, lambda cs: _eval_small(spec, cs, workdir, gen_q))
                except Exception as e:
                    C.log("search failed:", type(e).__name__, e)
            if found is not None:
                c, o = found
                replay_path = write_replay(spec, "spec-failure", {
                    "case": c, "implementation": o, "model": model_view(spec, c, o, workdir, gen_q),
                    "what": "found by the targeted search after a proof/correspondence break",
                    "broken": (P + [f"correspondence: {len(D_new)} disagreements"])[:3]})
                print(f"VIOLATION property={spec.ID} replay={replay_path}")
            else:
                first = D_new[0] if D_new else (drv[0] if drv else None)
                if first is None and not P and tie_breaks:
                    b = tie_breaks[0]
                    replay_path = write_replay(spec, "correspondence", {
                        "no_longer_checks": [f"correspondence of the model-tie module {b['tie']}: implementation and model differ "
                                             f"({b['disagreements']} cases)"],
                        "tie": b["tie"], "case": b["case"], "implementation": b["implementation"], "model": b["model"],
                        "coq_errors": b["coq_errors"], "replay_with": f"bin/check {b['tie']} --tier quick"})
                    print(f"VIOLATION property={spec.ID} replay={replay_path} no-failing-input-found")
                    first = -1
                if first != -1:
                  replay_path = write_replay(spec, "proof-broken" if P else "correspondence", {
                    "no_longer_checks": P[:5] or [f"correspondence {spec.ID}: implementation and model differ"
                                                   if D_new else "case evaluation failed"],
                    "case": cases[first] if first is not None else None,
                    "implementation": obs[first] if first is not None else None,
                    "model": model_view(spec, cases[first], obs[first], workdir, gen_q) if first is not None else "",
                    "coq_errors": coq_errors[:2], "disagreements": len(D_new),
                    "tie_breaks": [{k: v for k, v in b.items() if k in ("tie", "disagreements", "oracle_failures")} for b in tie_breaks]})
                  print(f"VIOLATION property={spec.ID} replay={replay_path} no-failing-input-found")
            exit_code = 1
        for k, n in known_hit.items():
            print(f"KNOWN-FINDING: property={spec.ID} {open_keys[k]['what']} ({n} cases)")

        # evidence
        keys = set()
        for c, o in zip(cases, obs):
            k = spec.nontrivial_key(c, o) if hasattr(spec, "nontrivial_key") else json.dumps(c, sort_keys=True, default=str)
            if k is not None:
                keys.add(k if isinstance(k, str) else json.dumps(k, sort_keys=True, default=str))
        dist: dict[str, int] = {}
        for c, o in zip(cases, obs):
            for tag in (spec.tags(c, o) if hasattr(spec, "tags") else [c.get("kind", "case")] if isinstance(c, dict) else ["case"]):
                dist[tag] = dist.get(tag, 0) + 1
        samples = []
        step = max(1, len(cases) // 6)
        for i in range(0, len(cases), step):
            samples.append({"case": _clip(cases[i]), "implementation": _clip(obs[i])})
        ev = {
            "property_id": spec.ID, "tier": tier, "seed": seed, "level": "proof",
            "coverage": {
                "obligations": max(1, proof_info["obligations"]),
                "discharged": proof_info["discharged"] if not P else min(proof_info["discharged"], max(0, proof_info["obligations"] - 1)),
                "checker_cmd": f"bin/check {spec.ID} --tier {tier}  (coqc -Q coq/theories A816 ...; Print Assumptions per theorem)",
                "trusted_base": TRUSTED_BASE + list(getattr(spec, "TRUSTED", [])),
                "theorems": proof_info["theorems"],
                "proved_vs_correspondence_only": getattr(spec, "PROVED_NOTE", ""),
                "evaluations": max(1, len(cases)),
                "distinct_nontrivial": len(keys),
                "rule": getattr(spec, "RULE", ""),
                "samples": samples[:8],
                "input_distribution": dist,
                "model_ties": tie_info,
                "correspondence_disagreements": len(D) + sum(t["disagreements"] for t in tie_info.values()),
                "oracle_failures": len(F),
                "known_findings_hit": known_hit,
                "proof_failures": P[:5],
                "exhaustive": bool(getattr(spec, "EXHAUSTIVE", {}).get(tier, False)),
                "impl_seconds": round(t_impl, 1), "coq_seconds": round(t_coq, 1),
            },
            "assumptions": list(getattr(spec, "ASSUMPTIONS", [])),
            "wall_s": round(time.time() - t0, 1),
            "violations": 1 if exit_code else 0,
        }
        if replay is None:
            # evidence/<id>.json exists for properties only; a tie module run on its own leaves its record under work/
            dest = C.EVIDENCE if re.fullmatch(r"C\d\d", spec.ID) else C.WORK / "tie-evidence"
            dest.mkdir(parents=True, exist_ok=True)
            (dest / f"{spec.ID}.json").write_text(json.dumps(ev, indent=1, default=str))
        for tid, t in tie_info.items():
            C.log(f"[{spec.ID}] tie {tid}: cases={t['cases']} D={t['disagreements']} F={t['oracle_failures']} {t['seconds']}s")
        C.log(f"[{spec.ID}] tier={tier} cases={len(cases)} D={len(D)} F={len(F)} P={len(P)} "
              f"impl={t_impl:.1f}s coq={t_coq:.1f}s total={time.time() - t0:.1f}s exit={exit_code}")
        if exit_code and (P or coq_errors):
            for p in (P + coq_errors)[:3]:
                C.log(p[:1500])
        return exit_code
    finally:
        if not os.environ.get("A816_KEEP_WORK"):
            C.rm_workdir(workdir)


def _clip(x, n=600):
    s = json.dumps(x, default=str)
    return x if len(s) <= n else s[:n] + "..."


def _eval_small(spec, cases, workdir, gen_q):
    """Used by spec.search: returns list of (case, obs, corr_ok, spec_ok)."""
    obs = observe_all(spec, cases)
    D, F, errs = evaluate(spec, cases, obs, workdir, gen_q, name=f"search{random.randrange(10**6)}")
    if errs:
        C.log("search evaluation errors:", errs[0][:500])
    Ds, Fs = set(D), set(F)
    return [(c, o, i not in Ds, i not in Fs) for i, (c, o) in enumerate(zip(cases, obs))]


def _still_fails(spec, case, workdir, gen_q) -> bool:
    r = _eval_small(spec, [case], workdir, gen_q)
    return not r[0][3]


def main(argv=None) -> int:
    ap = argparse.ArgumentParser()
    ap.add_argument("property", nargs="?")
    ap.add_argument("--tier", default=os.environ.get("VERIF_TIER", "quick"), choices=["quick", "thorough"])
    ap.add_argument("--replay")
    args = ap.parse_args(argv)
    seed = int(os.environ.get("VERIF_SEED", "816"))
    if args.replay:
        rp = json.loads(Path(args.replay).read_text())
        if rp.get("tie") and rp.get("case") is not None:
            # the failing input belongs to a model-tie module: replay it there (same verdict protocol, reported under
            # the property that owns the replay file)
            rc = run_check(rp["tie"], args.tier, seed, replay={"case": rp["case"], "property": rp["tie"]})
            if rc:
                print(f"VIOLATION property={rp['property']} replay={args.replay}")
            return rc
        return run_check(rp["property"], args.tier, seed, replay=rp)
    if not args.property:
        ap.error("property id required")
    pid = args.property.upper()
    try:
        return run_check(pid, args.tier, seed)
    except Exception as e:      # the check itself broke: fail closed, never silently
        C.REPLAYS.mkdir(exist_ok=True)
        p = C.REPLAYS / f"{pid}-crash-{C.short_hash(traceback.format_exc())}.json"
        p.write_text(json.dumps({"property": pid, "kind": "check-crashed",
                                 "no_longer_checks": [f"the check for {pid} raised {type(e).__name__}: {e}"],
                                 "trace": traceback.format_exc()[-3000:]}, indent=1))
        print(f"VIOLATION property={pid} replay={p} no-failing-input-found")
        C.log(traceback.format_exc()[-2000:])
        return 1


if __name__ == "__main__":
    sys.exit(main())
