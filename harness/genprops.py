import re, subprocess, sys
def gen(outfile, header_comment, requires, items):
    chk = "From A816 Require Import " + " ".join(requires) + ".\nSet Printing Width 100.\nSet Printing Depth 1000.\n" + "".join(f"Check @{o}.\n" for o,_ in items)
    open('/tmp/gp.v','w').write(chk)
    r = subprocess.run(["coqc","-Q","theories","A816","/tmp/gp.v"],capture_output=True,text=True,timeout=900)
    assert r.returncode==0, r.stderr[-2000:]
    out=r.stdout
    # split by item names at line start
    parts=re.split(r'^(?=[A-Za-z_][A-Za-z0-9_\']*\n     : )', out, flags=re.M)
    types={}
    for p in parts:
        m=re.match(r'([A-Za-z_][A-Za-z0-9_\']*)\n     : (.*)', p, flags=re.S)
        if m: types[m.group(1)]=m.group(2).rstrip()
    body=[header_comment, "From Coq Require Import ZArith List Bool Arith.\nFrom A816 Require Import " + " ".join(requires) + ".\n"]
    for o,n in items:
        t=types[o]
        t="\n".join("  "+l.strip() if i else l.strip() for i,l in enumerate(t.split("\n")))
        body.append(f"Theorem {n} :\n  {t}.\nProof. exact @{o}. Qed.\n")
    body.append("\n".join(f"Print Assumptions {n}." for _,n in items)+"\n")
    open(outfile,'w').write("\n".join(body))
if __name__=="__main__":
    pass
