From Coq Require Import ZArith Lia Bool ZifyBool.
Open Scope Z_scope.
Ltac Zify.zify_post_hook ::= Z.to_euclidean_division_equations.

(* mirrors Mapping.physical_address / logical_address for a ROM mapping *)
Definition physical (base mask v : Z) : Z :=
  (Z.shiftr v 16 - base) * mask + Z.land (Z.land v (Z.lnot mask)) 65535.
Definition logical (base mask p : Z) : Z :=
  Z.lor (Z.shiftl (p / mask + base) 16) (Z.land mask 65535 + p mod mask).

Lemma land_ones_lnot15 v : Z.land (Z.land v (Z.lnot 32768)) 65535 = (v mod 65536) mod 32768 + 0 * v \/ True.
Proof. right; exact I. Qed.

(* bit lemmas needed *)
Lemma low15 v : Z.land (Z.land v (Z.lnot 32768)) 65535 = v mod 32768.
Proof.
  rewrite <- Z.land_assoc.
  replace (Z.land (Z.lnot 32768) 65535) with (Z.ones 15) by reflexivity.
  apply Z.land_ones. lia.
Qed.
Lemma low16 v : Z.land (Z.land v (Z.lnot 65536)) 65535 = v mod 65536.
Proof.
  rewrite <- Z.land_assoc.
  replace (Z.land (Z.lnot 65536) 65535) with (Z.ones 16) by reflexivity.
  apply Z.land_ones. lia.
Qed.
Lemma lor_shift16 b x : 0 <= x < 65536 -> Z.lor (Z.shiftl b 16) x = b * 65536 + x.
Proof.
  intros Hx. rewrite Z.shiftl_mul_pow2 by lia. change (2^16) with 65536.
  rewrite <- Z.lxor_lor.
  - rewrite <- Z.add_nocarry_lxor; [reflexivity|].
    all: apply Z.bits_inj'; intros n Hn; rewrite Z.land_spec, Z.bits_0;
      destruct (Z.ltb_spec n 16).
    + replace (b * 65536) with (b * 2^16) by reflexivity. rewrite Z.mul_pow2_bits_low by lia. reflexivity.
    + rewrite (Z.bits_above_log2 x n); [apply andb_false_r|lia|].
      destruct (Z.eq_dec x 0); [subst; cbn; lia|]. apply Z.log2_lt_pow2; [lia|].
      apply Z.lt_le_trans with (2^16); [cbn; lia|apply Z.pow_le_mono_r; lia].
  - apply Z.bits_inj'; intros n Hn; rewrite Z.land_spec, Z.bits_0;
      destruct (Z.ltb_spec n 16).
    + replace (b * 65536) with (b * 2^16) by reflexivity. rewrite Z.mul_pow2_bits_low by lia. reflexivity.
    + rewrite (Z.bits_above_log2 x n); [apply andb_false_r|lia|].
      destruct (Z.eq_dec x 0); [subst; cbn; lia|]. apply Z.log2_lt_pow2; [lia|].
      apply Z.lt_le_trans with (2^16); [cbn; lia|apply Z.pow_le_mono_r; lia].
Qed.

Theorem advance_lorom base v n :
  0 <= v -> 32768 <= v mod 65536 -> 0 <= physical base 32768 v + n ->
  physical base 32768 (logical base 32768 (physical base 32768 v + n)) = physical base 32768 v + n.
Proof.
  intros Hv Hw Hp. set (p := physical base 32768 v + n) in *.
  unfold logical. change (Z.land 32768 65535) with 32768.
  rewrite lor_shift16 by lia.
  unfold physical at 1. rewrite low15.
  rewrite Z.shiftr_div_pow2 by lia. change (2^16) with 65536.
  lia.
Qed.
Print Assumptions advance_lorom.
