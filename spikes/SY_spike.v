From Coq Require Import ZArith List Bool Lia.
Import ListNotations.

(* tokens as the parser hands them to shunting_yard *)
Inductive bop := Mul | Add | Sub | Shl | Shr | And | Or.
Inductive uop := Neg | Not.
Inductive tok := TNum (z : Z) | TBin (o : bop) | TUn (o : uop) | TLP | TRP.

Definition bprec (o : bop) : nat :=
  match o with Mul => 3 | Add | Sub => 4 | Shl | Shr => 5 | And => 8 | Or => 10 end.

(* stack entries: operators or "(" *)
Inductive sent := SBin (o : bop) | SUn (o : uop) | SLP.
Definition sprec (s : sent) : nat :=
  match s with SBin o => bprec o | SUn _ => 2 | SLP => 1 end.

Inductive rpn := RNum (z : Z) | RBin (o : bop) | RUn (o : uop).
Definition to_rpn (s : sent) : list rpn :=
  match s with SBin o => [RBin o] | SUn o => [RUn o] | SLP => [] end.

(* pop while top is not "(" and prec <= p ; stack head = top *)
Fixpoint pop_le (p : nat) (stk : list sent) : list rpn * list sent :=
  match stk with
  | [] => ([], [])
  | SLP :: _ => ([], stk)
  | s :: stk' => if Nat.leb (sprec s) p
                 then let '(o, r) := pop_le p stk' in (to_rpn s ++ o, r)
                 else ([], stk)
  end.

(* pop down to last "(" (nearest to top) *)
Fixpoint pop_paren (stk : list sent) : option (list rpn * list sent) :=
  match stk with
  | [] => None
  | SLP :: r => Some ([], r)
  | s :: r => match pop_paren r with Some (o, r') => Some (to_rpn s ++ o, r') | None => None end
  end.

Fixpoint flush (stk : list sent) : list rpn :=
  match stk with [] => [] | s :: r => to_rpn s ++ flush r end.

Fixpoint sy (ts : list tok) (out : list rpn) (stk : list sent) : option (list rpn) :=
  match ts with
  | [] => Some (out ++ flush stk)
  | TNum z :: r => sy r (out ++ [RNum z]) stk
  | TBin o :: r => let '(po, stk') := pop_le (bprec o) stk in sy r (out ++ po) (SBin o :: stk')
  | TUn o :: r => sy r out (SUn o :: stk)
  | TLP :: r => sy r out (SLP :: stk)
  | TRP :: r => match pop_paren stk with
                | Some (po, stk') => sy r (out ++ po) stk'
                | None => None
                end
  end.

(* conventional reading: stratified trees *)
Inductive expr := Num (z : Z) | Un (o : uop) (e : expr) | Bin (o : bop) (a b : expr) | Par (e : expr).

(* level: 0 for atoms/unary/paren, else prec of the root binary operator *)
Definition level (e : expr) : nat := match e with Bin o _ _ => bprec o | Un _ _ => 2 | _ => 0 end.

Fixpoint wf (e : expr) : Prop :=
  match e with
  | Num _ => True
  | Un _ a => level a <= 2 /\ wf a
  | Bin o a b => level a <= bprec o /\ level b < bprec o /\ wf a /\ wf b
  | Par a => wf a
  end.

Fixpoint flat (e : expr) : list tok :=
  match e with
  | Num z => [TNum z]
  | Un o a => TUn o :: flat a
  | Bin o a b => flat a ++ TBin o :: flat b
  | Par a => TLP :: flat a ++ [TRP]
  end.

Fixpoint post (e : expr) : list rpn :=
  match e with
  | Num z => [RNum z]
  | Un o a => post a ++ [RUn o]
  | Bin o a b => post a ++ post b ++ [RBin o]
  | Par a => post a
  end.

(* pending operators: no parens, all prec <= l *)
Definition pend_ok (l : nat) (s : list sent) : Prop :=
  Forall (fun x => x <> SLP /\ sprec x <= l) s.
(* context stack: top is absent, "(" or strictly looser than l *)
Definition top_ok (l : nat) (stk : list sent) : Prop :=
  l <= 2 \/ match stk with [] => True | SLP :: _ => True | s :: _ => l < sprec s end.

Lemma pop_le_pend p s stk : 3 <= p -> pend_ok p s -> top_ok p stk ->
  pop_le p (s ++ stk) = (flush s, stk).
Proof.
  induction s as [|x s IH]; intros H3 Hp [Ht|Ht]; try lia; cbn [app].
  - destruct stk as [|y stk]; [reflexivity|]. destruct y; cbn [sprec] in Ht; cbn [pop_le sprec].
    + destruct (Nat.leb_spec (bprec o) p); [lia|reflexivity].
    + destruct (Nat.leb_spec 2 p); [lia|reflexivity].
    + reflexivity.
  - inversion Hp as [|? ? [Hx1 Hx2] Hp']; subst. cbn [pop_le flush].
    destruct x; [| |congruence]; cbn [sprec] in *.
    + destruct (Nat.leb_spec (bprec o) p); [|lia]. rewrite IH; auto. right; assumption.
    + destruct (Nat.leb_spec 2 p); [|lia]. rewrite IH; auto. right; assumption.
Qed.

Lemma pop_paren_pend l s stk : pend_ok l s ->
  pop_paren (s ++ SLP :: stk) = Some (flush s, stk).
Proof.
  induction s as [|x s IH]; intros Hp; cbn [app pop_paren flush]; [reflexivity|].
  inversion Hp as [|? ? [Hx1 Hx2] Hp']; subst.
  destruct x; [| |congruence]; rewrite IH by assumption; reflexivity.
Qed.

Lemma flush_app a b : flush (a ++ b) = flush a ++ flush b.
Proof. induction a; cbn; [reflexivity|]. rewrite IHa, app_assoc. reflexivity. Qed.

Lemma pend_weaken l l' s : l <= l' -> pend_ok l s -> pend_ok l' s.
Proof. intros H. unfold pend_ok. apply Forall_impl. intros a [? ?]; split; [assumption|lia]. Qed.

(* main lemma *)
Lemma bprec_ge3 o : 3 <= bprec o. Proof. destruct o; cbn; lia. Qed.

Lemma sy_expr e : wf e -> forall rest out stk, top_ok (level e) stk ->
  exists o' s', pend_ok (level e) s' /\
    o' ++ flush s' = post e /\
    sy (flat e ++ rest) out stk = sy rest (out ++ o') (s' ++ stk).
Proof.
  induction e as [z|o a IHa|o a IHa b IHb|a IHa]; intros Hwf rest out stk Htop.
  - exists [RNum z], []. cbn. repeat split; constructor.
  - destruct Hwf as [Hl Hw]. cbn [flat app sy].
    destruct (IHa Hw rest out (SUn o :: stk)) as (oa & sa & Hp & Hpost & Hsy).
    { left; assumption. }
    exists oa, (sa ++ [SUn o]). cbn [level]. repeat split.
    + apply Forall_app; split; [apply (pend_weaken (level a)); assumption|].
      constructor; [split; [congruence|cbn; lia]|constructor].
    + rewrite flush_app. cbn [flush to_rpn app]. rewrite ?app_nil_r, app_assoc, Hpost. reflexivity.
    + rewrite Hsy. rewrite <- app_assoc. reflexivity.
  - destruct Hwf as (Hla & Hlb & Hwa & Hwb). cbn [flat level] in *.
    pose proof (bprec_ge3 o) as H3.
    rewrite <- app_assoc. cbn [app].
    destruct (IHa Hwa (TBin o :: flat b ++ rest) out stk) as (oa & sa & Hpa & Hposta & Hsya).
    { destruct Htop as [?|Htop]; [lia|]. right. destruct stk as [|[]]; cbn in *; try exact I; lia. }
    rewrite Hsya. cbn [sy].
    rewrite (pop_le_pend (bprec o) sa stk); [| assumption | apply (pend_weaken (level a)); assumption | assumption].
    destruct (IHb Hwb rest ((out ++ oa) ++ flush sa) (SBin o :: stk)) as (ob & sb & Hpb & Hpostb & Hsyb).
    { right. cbn. lia. }
    rewrite Hsyb.
    exists (oa ++ flush sa ++ ob), (sb ++ [SBin o]). repeat split.
    + apply Forall_app; split; [apply (pend_weaken (level b)); [lia|assumption]|].
      constructor; [split; [congruence|cbn; lia]|constructor].
    + rewrite flush_app. cbn [flush to_rpn app post]. rewrite ?app_nil_r.
      rewrite <- Hposta, <- Hpostb. rewrite <- !app_assoc. reflexivity.
    + rewrite <- !app_assoc. reflexivity.
  - cbn [flat wf level] in *. cbn [app sy]. rewrite <- app_assoc.
    destruct (IHa Hwf ([TRP] ++ rest) out (SLP :: stk)) as (oa & sa & Hpa & Hposta & Hsya).
    { right. exact I. }
    rewrite Hsya. cbn [app sy].
    rewrite (pop_paren_pend _ sa stk Hpa).
    exists (oa ++ flush sa), []. repeat split; try constructor.
    + cbn. rewrite app_nil_r. exact Hposta.
    + rewrite app_assoc. reflexivity.
Qed.

Theorem sy_correct e : wf e -> sy (flat e) [] [] = Some (post e).
Proof.
  intros Hwf. destruct (sy_expr e Hwf [] [] []) as (o & s & _ & Hpost & Hsy); [right; exact I|].
  rewrite app_nil_r in Hsy. rewrite Hsy. cbn. rewrite app_nil_r. rewrite Hpost. reflexivity.
Qed.
Print Assumptions sy_correct.
