From Coq Require Import ZArith List Bool Lia Arith.
Import ListNotations.
Open Scope nat_scope.

(* ---------- model: mirrors scanner.py primitives ---------- *)
Record tok := { ty : nat; tstart : nat; tend : nat; tline : nat; tcol : Z }.
Record sc := { inp : list Z; pos : nat; start : nat; loff : nat; cline : nat;
               lines : list (list Z); toks : list tok }.
Inductive res (A : Type) := Ok (a : A) | Err (msg : nat) (s : sc) | OutOfFuel.
Arguments Ok {A}. Arguments Err {A}. Arguments OutOfFuel {A}.

Definition slice (l : list Z) (a b : nat) := firstn (b - a) (skipn a l).
Definition set_pos s p := {| inp := inp s; pos := p; start := start s; loff := loff s; cline := cline s; lines := lines s; toks := toks s |}.
Definition handle_line s :=
  if loff s <=? pos s then
    {| inp := inp s; pos := pos s; start := start s; loff := pos s + 1; cline := cline s + 1;
       lines := lines s ++ [slice (inp s) (loff s) (pos s)]; toks := toks s |}
  else s.
Definition next s : option Z * sc :=
  match nth_error (inp s) (pos s) with
  | Some c => let s1 := if Z.eqb c 10 then handle_line s else s in (Some c, set_pos s1 (pos s + 1))
  | None => (None, s)
  end.
Definition peek s := nth (pos s) (inp s) 0%Z.
Definition mem (c : Z) (l : list Z) := existsb (Z.eqb c) l.
Definition accept s (cands : list Z) (negate : bool) : bool * sc :=
  let r := xorb (mem (peek s) cands) negate in
  if r then (true, snd (next s)) else (false, s).
Fixpoint accept_run (fuel : nat) s cands negate : res sc :=
  match fuel with
  | 0 => OutOfFuel
  | S f => let '(b, s') := accept s cands negate in
           if b then accept_run f s' cands negate else Ok s'
  end.
Definition ignore s := {| inp := inp s; pos := pos s; start := pos s; loff := loff s; cline := cline s; lines := lines s; toks := toks s |}.
Definition emit s (t : nat) :=
  {| inp := inp s; pos := pos s; start := pos s; loff := loff s; cline := cline s; lines := lines s;
     toks := toks s ++ [{| ty := t; tstart := start s; tend := pos s; tline := cline s;
                           tcol := (Z.of_nat (start s) - Z.of_nat (loff s))%Z |}] |}.

(* ---------- specification of positions ---------- *)
Fixpoint count_nl (l : list Z) : nat :=
  match l with [] => 0 | c :: r => (if Z.eqb c 10 then 1 else 0) + count_nl r end.
(* index just after the last newline in l (0 if none) *)
Fixpoint line_start_aux (l : list Z) (i acc : nat) : nat :=
  match l with [] => acc | c :: r => line_start_aux r (S i) (if Z.eqb c 10 then S i else acc) end.
Definition line_start (l : list Z) := line_start_aux l 0 0.

Definition Inv s : Prop :=
  pos s <= length (inp s) /\
  cline s = count_nl (firstn (pos s) (inp s)) /\
  loff s = line_start (firstn (pos s) (inp s)).
Definition Clean s : Prop := start s <= pos s /\ forall i, start s <= i < pos s -> nth i (inp s) 0%Z <> 10%Z.
Definition tok_ok (i : list Z) (t : tok) : Prop :=
  tline t = count_nl (firstn (tstart t) i) /\
  tcol t = (Z.of_nat (tstart t) - Z.of_nat (line_start (firstn (tstart t) i)))%Z.

(* ---------- lemmas ---------- *)
Lemma count_nl_app a b : count_nl (a ++ b) = count_nl a + count_nl b.
Proof. induction a as [|c a IH]; cbn; [reflexivity|]. rewrite IH. lia. Qed.

Lemma line_start_aux_app a b i acc :
  line_start_aux (a ++ b) i acc = line_start_aux b (i + length a) (line_start_aux a i acc).
Proof.
  revert i acc; induction a as [|c a IH]; intros i acc; cbn [app line_start_aux length].
  - f_equal. lia.
  - rewrite IH. f_equal. lia.
Qed.

Lemma firstn_S_nth (l : list Z) n c : nth_error l n = Some c -> firstn (S n) l = firstn n l ++ [c].
Proof.
  revert n; induction l as [|x l IH]; intros [|n] H; cbn in *; try discriminate.
  - congruence.
  - f_equal. apply IH. exact H.
Qed.

Lemma nth_error_nth (l : list Z) n c d : nth_error l n = Some c -> nth n l d = c.
Proof. revert n; induction l; intros [|n] H; cbn in *; try discriminate; [congruence|auto]. Qed.

Lemma firstn_len_le (l : list Z) n : n <= length l -> length (firstn n l) = n.
Proof. intros. rewrite firstn_length. lia. Qed.

(* next preserves Inv *)
Lemma next_inv s : Inv s -> Inv (snd (next s)).
Proof.
  intros (Hp & Hc & Hl). unfold next.
  destruct (nth_error (inp s) (pos s)) as [c|] eqn:E; cbn [snd]; [|repeat split; assumption].
  assert (Hlt : pos s < length (inp s)) by (apply nth_error_Some; congruence).
  destruct (Z.eqb_spec c 10) as [->|Hne].
  - unfold handle_line.
    assert (loff s <= pos s).
    { rewrite Hl. unfold line_start. clear -Hp.
      assert (G : forall l i acc, acc <= i -> line_start_aux l i acc <= i + length l).
      { induction l as [|x l IH]; intros i acc Ha; cbn; [lia|].
        specialize (IH (S i) (if Z.eqb x 10 then S i else acc)). destruct (Z.eqb x 10); lia. }
      specialize (G (firstn (pos s) (inp s)) 0 0). rewrite firstn_length in G. lia. }
    destruct (Nat.leb_spec (loff s) (pos s)); [|lia].
    unfold Inv, set_pos; cbn. repeat split; [lia| |].
    + replace (pos s + 1) with (S (pos s)) by lia. rewrite (firstn_S_nth _ _ _ E), count_nl_app, <- Hc. cbn. lia.
    + replace (pos s + 1) with (S (pos s)) by lia. rewrite (firstn_S_nth _ _ _ E).
      unfold line_start. rewrite line_start_aux_app. cbn. rewrite firstn_len_le by lia. reflexivity.
  - unfold Inv, set_pos; cbn. repeat split; [lia| |].
    + replace (pos s + 1) with (S (pos s)) by lia. rewrite (firstn_S_nth _ _ _ E), count_nl_app, <- Hc. cbn.
      destruct (Z.eqb_spec c 10); [contradiction|lia].
    + replace (pos s + 1) with (S (pos s)) by lia. rewrite (firstn_S_nth _ _ _ E).
      unfold line_start. rewrite line_start_aux_app. cbn.
      destruct (Z.eqb_spec c 10); [contradiction|]. exact Hl.
Qed.

(* emit on a clean state yields a correctly positioned token *)
Lemma firstn_clean_count s : Inv s -> Clean s ->
  count_nl (firstn (pos s) (inp s)) = count_nl (firstn (start s) (inp s)) /\
  line_start (firstn (pos s) (inp s)) = line_start (firstn (start s) (inp s)).
Proof.
  intros (Hp & _ & _) (Hs & Hcl).
  remember (pos s - start s) as d eqn:Hd.
  assert (Hpos : pos s = start s + d) by lia. clear Hd.
  revert Hcl Hp. rewrite Hpos. clear Hpos Hs.
  induction d as [|d IH]; intros Hcl Hp.
  - rewrite Nat.add_0_r. split; reflexivity.
  - assert (Hlt : start s + d < length (inp s)) by lia.
    destruct (nth_error (inp s) (start s + d)) as [c|] eqn:E; [|apply nth_error_None in E; lia].
    replace (start s + S d) with (S (start s + d)) by lia.
    rewrite (firstn_S_nth _ _ _ E).
    assert (c <> 10%Z).
    { rewrite <- (nth_error_nth _ _ _ 0%Z E). apply Hcl. lia. }
    destruct IH as [IH1 IH2]; [intros i Hi; apply Hcl; lia|lia|].
    split.
    + rewrite count_nl_app, IH1. cbn. destruct (Z.eqb_spec c 10); [contradiction|lia].
    + unfold line_start in *. rewrite line_start_aux_app. cbn.
      destruct (Z.eqb_spec c 10); [contradiction|]. exact IH2.
Qed.

Theorem emit_tok_ok s t : Inv s -> Clean s -> Forall (tok_ok (inp s)) (toks s) ->
  Forall (tok_ok (inp s)) (toks (emit s t)) /\ Inv (emit s t) /\ Clean (emit s t).
Proof.
  intros HI HC HT. destruct (firstn_clean_count s HI HC) as [E1 E2].
  destruct HI as (Hp & Hc & Hl). repeat split; cbn; try assumption; try lia.
  apply Forall_app; split; [assumption|]. constructor; [|constructor].
  unfold tok_ok; cbn. rewrite Hc, Hl, E1, E2. split; reflexivity.
Qed.

(* accept_run: fuel sufficiency, Inv preservation, monotone pos *)
Lemma accept_run_total cands negate :
  (negate = false -> mem 0%Z cands = false) -> (negate = true -> mem 0%Z cands = true) ->
  forall fuel s, Inv s -> length (inp s) - pos s < fuel ->
  exists s', accept_run fuel s cands negate = Ok s' /\ Inv s' /\ pos s <= pos s' /\ inp s' = inp s /\ start s' = start s /\ toks s' = toks s.
Proof.
  intros H0 H1. induction fuel as [|f IH]; intros s HI Hf; [lia|].
  cbn [accept_run]. unfold accept.
  destruct (xorb (mem (peek s) cands) negate) eqn:Ex.
  - (* accepted: cannot be at EOF *)
    assert (Hlt : pos s < length (inp s)).
    { destruct (Nat.lt_ge_cases (pos s) (length (inp s))); [assumption|].
      unfold peek in Ex. rewrite nth_overflow in Ex by lia.
      destruct negate; [rewrite H1 in Ex by reflexivity|rewrite H0 in Ex by reflexivity]; discriminate. }
    pose proof (next_inv s HI) as HI'.
    assert (Hn : pos (snd (next s)) = pos s + 1 /\ inp (snd (next s)) = inp s /\ start (snd (next s)) = start s /\ toks (snd (next s)) = toks s).
    { unfold next. destruct (nth_error (inp s) (pos s)) eqn:E; [|apply nth_error_None in E; lia].
      cbn. unfold handle_line. destruct (Z.eqb z 10); [destruct (loff s <=? pos s)|]; cbn; repeat split; reflexivity. }
    destruct Hn as (Hn1 & Hn2 & Hn3 & Hn4).
    destruct (IH (snd (next s)) HI') as (s' & Hr & HI'' & Hm & Hi & Hs & Ht); [rewrite Hn1, Hn2; lia|].
    exists s'. split; [exact Hr|]. split; [exact HI''|]. split; [lia|]. repeat split; congruence.
  - exists s. split; [reflexivity|]. split; [exact HI|]. repeat split; lia.
Qed.
Print Assumptions accept_run_total.
Print Assumptions emit_tok_ok.
